(** * C12  merge reports the right vertices it did not reach

    Property text: merge() returns Ok only if every present vertex of the
    right graph has been mapped onto a vertex of the left graph.  If some
    present vertex of the right graph cannot be reached from [right], the
    call returns Err naming the vertices it missed instead of reporting
    success.  Quantifier: every right graph made of a tree plus any number of
    extra present vertices or detached sub-trees, every left tree and every
    [left].

    Reading guide.  [op_merge n s h left right] (Merge.v) models
    [s.merge(&h, left, right)]; [s] is the left graph (mutated), [h] the right
    graph (immutable: a value of the functional model, unchanged by
    construction).  The result [Ok (s', None)] is Rust's [Ok(())],
    [Ok (s', Some missed)] is the [Err] whose message names [missed];
    [Panic]/[Unmodelled] are the other ways the call can end ([Unmodelled]:
    the code would call [join()]); [OutOfFuel] is excluded by C12_never_out_of_fuel.
    [op_merge_mapped] is the same call returning the final [mapped] table
    instead of the verdict, [map_get m v] looks a right vertex up in it,
    [keys m] are its keys.  [reach ptrue h right v]: [v] can be reached from
    [right] along the edges of [h] (Reach.v).  [hclosed h right]: [right] is a
    slot of [h] and everything reachable from it is a present vertex whose
    edges point to slots -- true of every graph whose edges point to present
    vertices ([C12_hclosed_sufficient]), in particular of a tree of present
    vertices plus any other present vertices or detached sub-trees.

    The theorems need nothing from the left graph nor from [left]: they speak
    about every run that returns.  The proofs are in MergeFacts.v. *)

From Sodg Require Import MergeFacts MergePresent XMergeFacts.

(** ** the definitions the statements use, unfolded *)

Theorem C12_def_hclosed : forall h right,
  hclosed h right <->
  right < cap_of h /\
  forall u, reach ptrue h right u ->
            tag h u <> 0 /\ forall a w, In (a, w) (edg h u) -> w < cap_of h.
Proof. exact hclosed_unfold. Qed.
Check C12_def_hclosed : forall h right,
  hclosed h right <->
  right < cap_of h /\
  forall u, reach ptrue h right u ->
            tag h u <> 0 /\ forall a w, In (a, w) (edg h u) -> w < cap_of h.
Print Assumptions C12_def_hclosed.

Theorem C12_def_reach : forall p g v w,
  reach p g v w <->
  w = v \/ exists u a, reach p g v u /\ In (a, w) (edg g u) /\ p u w a = true.
Proof. exact reach_unfold. Qed.
Check C12_def_reach : forall p g v w,
  reach p g v w <->
  w = v \/ exists u a, reach p g v u /\ In (a, w) (edg g u) /\ p u w a = true.
Print Assumptions C12_def_reach.

Theorem C12_hclosed_sufficient : forall h right,
  hclosedb h right = true -> hclosed h right.
Proof. exact hclosedb_hclosed. Qed.
Check C12_hclosed_sufficient : forall h right,
  hclosedb h right = true -> hclosed h right.
Print Assumptions C12_hclosed_sufficient.

(** [op_merge] is [op_merge_mapped] followed by the comparison of the number
    of distinct keys with [len()] of the right graph *)
Theorem C12_def_op_merge : forall n s g left right,
  op_merge n s g left right =
  (r <- op_merge_mapped n s g left right ;; Ok (fst r, verdict g (snd r))).
Proof. exact op_merge_projection. Qed.
Check C12_def_op_merge : forall n s g left right,
  op_merge n s g left right =
  (r <- op_merge_mapped n s g left right ;; Ok (fst r, verdict g (snd r))).
Print Assumptions C12_def_op_merge.

(** ** (a) the recursion is a depth-first search whose visited set is the key
    set of [mapped] *)

(** any call, any mapping handed in: the keys afterwards are the keys before
    plus what is reachable from [right] along edges whose targets are not
    keys yet ([pav K _ w _ = true] iff [w] is not in [K]) *)
Theorem C12_merge_rec_keys_gen : forall f n h s left right m s' m',
  merge_rec f n h s left right m = Ok (s', m') ->
  forall u, In u (keys m') <->
            In u (keys m) \/ (~ In right (keys m) /\ reach (pav (keys m)) h right u).
Proof. exact merge_rec_keys_gen. Qed.
Check C12_merge_rec_keys_gen : forall f n h s left right m s' m',
  merge_rec f n h s left right m = Ok (s', m') ->
  forall u, In u (keys m') <->
            In u (keys m) \/ (~ In right (keys m) /\ reach (pav (keys m)) h right u).
Print Assumptions C12_merge_rec_keys_gen.

Theorem C12_def_pav : forall K x y a, pav K x y a = true <-> ~ In y K.
Proof. exact pav_true. Qed.
Check C12_def_pav : forall K x y a, pav K x y a = true <-> ~ In y K.
Print Assumptions C12_def_pav.

(** the top-level call: the keys are exactly the vertices reachable from [right] *)
Theorem C12_merge_rec_keys : forall f n h s left right s' m',
  merge_rec f n h s left right [] = Ok (s', m') ->
  forall u, In u (map fst m') <-> reach ptrue h right u.
Proof. exact merge_rec_keys. Qed.
Check C12_merge_rec_keys : forall f n h s left right s' m',
  merge_rec f n h s left right [] = Ok (s', m') ->
  forall u, In u (map fst m') <-> reach ptrue h right u.
Print Assumptions C12_merge_rec_keys.

(** no key is entered twice *)
Theorem C12_merge_rec_keys_nodup : forall f n h s left right s' m',
  merge_rec f n h s left right [] = Ok (s', m') -> NoDup (map fst m').
Proof. exact merge_rec_keys_nodup. Qed.
Check C12_merge_rec_keys_nodup : forall f n h s left right s' m',
  merge_rec f n h s left right [] = Ok (s', m') -> NoDup (map fst m').
Print Assumptions C12_merge_rec_keys_nodup.

(** ** (b) Ok only if every present right vertex has been mapped *)

Theorem C12_ok_complete : forall n s h left right s',
  hclosed h right -> op_merge n s h left right = Ok (s', None) ->
  forall v, tag h v <> 0 -> v < cap_of h -> reach ptrue h right v.
Proof. exact merge_ok_complete. Qed.
Check C12_ok_complete : forall n s h left right s',
  hclosed h right -> op_merge n s h left right = Ok (s', None) ->
  forall v, tag h v <> 0 -> v < cap_of h -> reach ptrue h right v.
Print Assumptions C12_ok_complete.

Theorem C12_ok_mapped : forall n s h left right s',
  hclosed h right -> op_merge n s h left right = Ok (s', None) ->
  exists m', op_merge_mapped n s h left right = Ok (s', m')
             /\ forall v, tag h v <> 0 -> map_get m' v <> None.
Proof. exact merge_ok_mapped. Qed.
Check C12_ok_mapped : forall n s h left right s',
  hclosed h right -> op_merge n s h left right = Ok (s', None) ->
  exists m', op_merge_mapped n s h left right = Ok (s', m')
             /\ forall v, tag h v <> 0 -> map_get m' v <> None.
Print Assumptions C12_ok_mapped.

(** ** (c) a present vertex that is not reachable from [right] turns the
    result into the error, which names exactly the unreachable present
    vertices, in ascending order *)

Theorem C12_err_names_missed : forall n s h left right s' r,
  hclosed h right -> op_merge n s h left right = Ok (s', r) ->
  (exists v, v < cap_of h /\ tag h v <> 0 /\ ~ reach ptrue h right v) ->
  exists missed,
    r = Some missed
    /\ (forall v, In v missed <-> (v < cap_of h /\ tag h v <> 0 /\ ~ reach ptrue h right v))
    /\ StronglySorted lt missed.
Proof. exact merge_err_names_missed. Qed.
Check C12_err_names_missed : forall n s h left right s' r,
  hclosed h right -> op_merge n s h left right = Ok (s', r) ->
  (exists v, v < cap_of h /\ tag h v <> 0 /\ ~ reach ptrue h right v) ->
  exists missed,
    r = Some missed
    /\ (forall v, In v missed <-> (v < cap_of h /\ tag h v <> 0 /\ ~ reach ptrue h right v))
    /\ StronglySorted lt missed.
Print Assumptions C12_err_names_missed.

(** conversely *)
Theorem C12_all_reached_ok : forall n s h left right s' r,
  hclosed h right -> op_merge n s h left right = Ok (s', r) ->
  (forall v, v < cap_of h -> tag h v <> 0 -> reach ptrue h right v) ->
  r = None.
Proof. exact merge_all_reached_ok. Qed.
Check C12_all_reached_ok : forall n s h left right s' r,
  hclosed h right -> op_merge n s h left right = Ok (s', r) ->
  (forall v, v < cap_of h -> tag h v <> 0 -> reach ptrue h right v) ->
  r = None.
Print Assumptions C12_all_reached_ok.

(** ** (d) the fuel of the model is never the reason why the call stops
    (unconditionally: the boundary check on [right] comes first) *)

Theorem C12_never_out_of_fuel : forall n s h left right,
  op_merge n s h left right <> OutOfFuel.
Proof. exact op_merge_fuel. Qed.
Check C12_never_out_of_fuel : forall n s h left right,
  op_merge n s h left right <> OutOfFuel.
Print Assumptions C12_never_out_of_fuel.

Theorem C12_mapped_never_out_of_fuel : forall n s h left right,
  op_merge_mapped n s h left right <> OutOfFuel.
Proof. exact op_merge_mapped_fuel. Qed.
Check C12_mapped_never_out_of_fuel : forall n s h left right,
  op_merge_mapped n s h left right <> OutOfFuel.
Print Assumptions C12_mapped_never_out_of_fuel.

(** ** (d) "mapped onto a vertex of the left graph": every image is a present
    vertex of the left graph after the call, provided the left graph has no
    edge from a present vertex into a collected one ([lclosed]: true of every
    left tree of present vertices; reachable graphs in general can have such
    edges, and then merge follows them: [C12_dangling_image_absent] shows the
    model answering Ok while a right vertex sits on an absent left slot -- a
    left graph outside the property's quantifier).  Proofs: MergePresent.v. *)

Theorem C12_def_lclosed :
  forall s, lclosed s <->
  (forall u a w, u < cap_of s -> tag s u <> 0 -> In (a, w) (edg s u) -> w < cap_of s /\ tag s w <> 0).
Proof. exact (fun s => conj (fun H => H) (fun H => H)). Qed.

Check C12_def_lclosed :
  forall s, lclosed s <->
  (forall u a w, u < cap_of s -> tag s u <> 0 -> In (a, w) (edg s u) -> w < cap_of s /\ tag s w <> 0).
Print Assumptions C12_def_lclosed.

Theorem C12_ok_images_present :
  forall n s h left right s',
  Inv n s -> lclosed s -> tag s left <> 0 -> hclosed h right ->
  op_merge n s h left right = Ok (s', None) ->
  exists m', op_merge_mapped n s h left right = Ok (s', m')
    /\ forall v, tag h v <> 0 -> exists w, map_get m' v = Some w /\ w < cap_of s' /\ tag s' w <> 0.
Proof. exact merge_ok_images_present. Qed.

Check C12_ok_images_present :
  forall n s h left right s',
  Inv n s -> lclosed s -> tag s left <> 0 -> hclosed h right ->
  op_merge n s h left right = Ok (s', None) ->
  exists m', op_merge_mapped n s h left right = Ok (s', m')
    /\ forall v, tag h v <> 0 -> exists w, map_get m' v = Some w /\ w < cap_of s' /\ tag s' w <> 0.
Print Assumptions C12_ok_images_present.

Theorem C12_images_present :
  forall n s h left right s' r,
  Inv n s -> lclosed s -> tag s left <> 0 ->
  op_merge n s h left right = Ok (s', r) ->
  exists m', op_merge_mapped n s h left right = Ok (s', m')
    /\ forall v w, map_get m' v = Some w -> w < cap_of s' /\ tag s' w <> 0.
Proof. exact merge_any_images_present. Qed.

Check C12_images_present :
  forall n s h left right s' r,
  Inv n s -> lclosed s -> tag s left <> 0 ->
  op_merge n s h left right = Ok (s', r) ->
  exists m', op_merge_mapped n s h left right = Ok (s', m')
    /\ forall v w, map_get m' v = Some w -> w < cap_of s' /\ tag s' w <> 0.
Print Assumptions C12_images_present.

Theorem C12_left_stays_closed :
  forall n s h left right s' m',
  Inv n s -> lclosed s -> left < cap_of s -> tag s left <> 0 ->
  op_merge_mapped n s h left right = Ok (s', m') ->
  lclosed s' /\ cap_of s' = cap_of s /\ (forall u, u < cap_of s -> tag s u <> 0 -> tag s' u <> 0).
Proof. exact merge_keeps_lclosed. Qed.

Check C12_left_stays_closed :
  forall n s h left right s' m',
  Inv n s -> lclosed s -> left < cap_of s -> tag s left <> 0 ->
  op_merge_mapped n s h left right = Ok (s', m') ->
  lclosed s' /\ cap_of s' = cap_of s /\ (forall u, u < cap_of s -> tag s u <> 0 -> tag s' u <> 0).
Print Assumptions C12_left_stays_closed.

Theorem C12_ex_images_present_hyps :
  Inv 16 exP_s /\ lclosed exP_s /\ 0 < cap_of exP_s /\ tag exP_s 0 <> 0 /\ hclosed exP_h 0.
Proof. exact merge_present_ex_hyps. Qed.

Check C12_ex_images_present_hyps :
  Inv 16 exP_s /\ lclosed exP_s /\ 0 < cap_of exP_s /\ tag exP_s 0 <> 0 /\ hclosed exP_h 0.
Print Assumptions C12_ex_images_present_hyps.

Theorem C12_ex_images_present :
  exists s',
    op_merge 16 exP_s exP_h 0 0 = Ok (s', None)
    /\ op_merge_mapped 16 exP_s exP_h 0 0 = Ok (s', [(2, 3); (4, 2); (3, 4); (1, 1); (0, 0)])
    /\ op_keys exP_s = [0; 1; 4; 5] /\ op_keys s' = [0; 1; 2; 3; 4; 5]
    /\ lclosedb s' = true /\ cap_of s' = cap_of exP_s.
Proof. exact merge_present_ex_result. Qed.

Check C12_ex_images_present :
  exists s',
    op_merge 16 exP_s exP_h 0 0 = Ok (s', None)
    /\ op_merge_mapped 16 exP_s exP_h 0 0 = Ok (s', [(2, 3); (4, 2); (3, 4); (1, 1); (0, 0)])
    /\ op_keys exP_s = [0; 1; 4; 5] /\ op_keys s' = [0; 1; 2; 3; 4; 5]
    /\ lclosedb s' = true /\ cap_of s' = cap_of exP_s.
Print Assumptions C12_ex_images_present.

Theorem C12_dangling_left_hyps :
  Inv 16 exD_s /\ 0 < cap_of exD_s /\ tag exD_s 0 <> 0 /\ hclosed exD_h 0
  /\ lclosedb exD_s = false
  /\ op_keys exD_s = [0; 1] /\ edg exD_s 0 = [(Alpha 0, 1); (Alpha 1, 2)] /\ tag exD_s 2 = 0.
Proof. exact merge_dangling_hyps. Qed.

Check C12_dangling_left_hyps :
  Inv 16 exD_s /\ 0 < cap_of exD_s /\ tag exD_s 0 <> 0 /\ hclosed exD_h 0
  /\ lclosedb exD_s = false
  /\ op_keys exD_s = [0; 1] /\ edg exD_s 0 = [(Alpha 0, 1); (Alpha 1, 2)] /\ tag exD_s 2 = 0.
Print Assumptions C12_dangling_left_hyps.

Theorem C12_dangling_image_absent :
  exists s' m',
    op_merge 16 exD_s exD_h 0 0 = Ok (s', None)
    /\ op_merge_mapped 16 exD_s exD_h 0 0 = Ok (s', m')
    /\ tag exD_h 1 <> 0 /\ map_get m' 1 = Some 2 /\ tag s' 2 = 0
    /\ op_keys s' = [0; 1].
Proof. exact merge_dangling_image_absent. Qed.

Check C12_dangling_image_absent :
  exists s' m',
    op_merge 16 exD_s exD_h 0 0 = Ok (s', None)
    /\ op_merge_mapped 16 exD_s exD_h 0 0 = Ok (s', m')
    /\ tag exD_h 1 <> 0 /\ map_get m' 1 = Some 2 /\ tag s' 2 = 0
    /\ op_keys s' = [0; 1].
Print Assumptions C12_dangling_image_absent.

(** ** (e) the same verdict theorems for the EXTENDED merge of XJoin.v, i.e.
    for the function the driver actually runs, on arbitrary operands: right
    graphs that are not trees (so that [join()] happens, any number of
    times), operands with vacant slots.  No hypothesis on the left graph, on
    holes or on well-formedness; [hclosed (xg g) right] as before ("everything
    reachable from [right] is present", necessary: XMergeFacts.ex_present_needed).
    A reachable vacant slot makes the call panic, so it cannot occur in a call
    that returns.  Proofs: XMergeFacts.v. *)

Theorem C12x_mapped_keys :
  forall n s g left right s' m',
  x_merge_mapped n s g left right = Ok (s', m') ->
  (forall u, In u (keys m') <-> reach ptrue (xg g) right u)
  /\ NoDup (keys m')
  /\ (forall u, In u (keys m') -> u < cap_of (xg g) /\ mem u (xh g) = false).
Proof. exact x_merge_mapped_keys. Qed.

Check C12x_mapped_keys :
  forall n s g left right s' m',
  x_merge_mapped n s g left right = Ok (s', m') ->
  (forall u, In u (keys m') <-> reach ptrue (xg g) right u)
  /\ NoDup (keys m')
  /\ (forall u, In u (keys m') -> u < cap_of (xg g) /\ mem u (xh g) = false).
Print Assumptions C12x_mapped_keys.

Theorem C12x_projection :
  forall n s g left right,
  x_merge n s g left right = (r <- x_merge_mapped n s g left right ;; Ok (fst r, verdict (xg g) (snd r))).
Proof. exact x_merge_projection. Qed.

Check C12x_projection :
  forall n s g left right,
  x_merge n s g left right = (r <- x_merge_mapped n s g left right ;; Ok (fst r, verdict (xg g) (snd r))).
Print Assumptions C12x_projection.

Theorem C12x_ok_complete :
  forall n s g left right s',
  hclosed (xg g) right -> x_merge n s g left right = Ok (s', None) ->
  forall v, tag (xg g) v <> 0 -> v < cap_of (xg g) -> reach ptrue (xg g) right v.
Proof. exact x_merge_ok_complete. Qed.

Check C12x_ok_complete :
  forall n s g left right s',
  hclosed (xg g) right -> x_merge n s g left right = Ok (s', None) ->
  forall v, tag (xg g) v <> 0 -> v < cap_of (xg g) -> reach ptrue (xg g) right v.
Print Assumptions C12x_ok_complete.

Theorem C12x_ok_mapped :
  forall n s g left right s',
  hclosed (xg g) right -> x_merge n s g left right = Ok (s', None) ->
  exists m', x_merge_mapped n s g left right = Ok (s', m')
             /\ forall v, tag (xg g) v <> 0 -> map_get m' v <> None.
Proof. exact x_merge_ok_mapped. Qed.

Check C12x_ok_mapped :
  forall n s g left right s',
  hclosed (xg g) right -> x_merge n s g left right = Ok (s', None) ->
  exists m', x_merge_mapped n s g left right = Ok (s', m')
             /\ forall v, tag (xg g) v <> 0 -> map_get m' v <> None.
Print Assumptions C12x_ok_mapped.

Theorem C12x_err_names_missed :
  forall n s g left right s' r,
  hclosed (xg g) right -> x_merge n s g left right = Ok (s', r) ->
  (exists v, v < cap_of (xg g) /\ tag (xg g) v <> 0 /\ ~ reach ptrue (xg g) right v) ->
  exists missed,
    r = Some missed
    /\ (forall v, In v missed <->
                  (v < cap_of (xg g) /\ tag (xg g) v <> 0 /\ ~ reach ptrue (xg g) right v))
    /\ StronglySorted lt missed.
Proof. exact x_merge_err_names_missed. Qed.

Check C12x_err_names_missed :
  forall n s g left right s' r,
  hclosed (xg g) right -> x_merge n s g left right = Ok (s', r) ->
  (exists v, v < cap_of (xg g) /\ tag (xg g) v <> 0 /\ ~ reach ptrue (xg g) right v) ->
  exists missed,
    r = Some missed
    /\ (forall v, In v missed <->
                  (v < cap_of (xg g) /\ tag (xg g) v <> 0 /\ ~ reach ptrue (xg g) right v))
    /\ StronglySorted lt missed.
Print Assumptions C12x_err_names_missed.

Theorem C12x_all_reached_ok :
  forall n s g left right s' r,
  hclosed (xg g) right -> x_merge n s g left right = Ok (s', r) ->
  (forall v, v < cap_of (xg g) -> tag (xg g) v <> 0 -> reach ptrue (xg g) right v) ->
  r = None.
Proof. exact x_merge_all_reached_ok. Qed.

Check C12x_all_reached_ok :
  forall n s g left right s' r,
  hclosed (xg g) right -> x_merge n s g left right = Ok (s', r) ->
  (forall v, v < cap_of (xg g) -> tag (xg g) v <> 0 -> reach ptrue (xg g) right v) ->
  r = None.
Print Assumptions C12x_all_reached_ok.

Theorem C12x_never_out_of_fuel :
  forall n s g left right, x_merge n s g left right <> OutOfFuel.
Proof. exact x_merge_fuel. Qed.

Check C12x_never_out_of_fuel :
  forall n s g left right, x_merge n s g left right <> OutOfFuel.
Print Assumptions C12x_never_out_of_fuel.

(** ** non-vacuity *)

(** right graph: the tree 0 -a-> 1, 0 -b-> 2 plus the isolated present vertex 5
    and a detached sub-tree 6 -a-> 7; left graph: the single vertex 0 *)
Definition ex12_h : sodg :=
  build 16 8 [OAdd 0; OAdd 1; OAdd 2; OAdd 5; OAdd 6; OAdd 7;
              OBind 0 1 (Alpha 0); OBind 0 2 (Alpha 1); OBind 6 7 (Alpha 0)].
Definition ex12_s : sodg := build 16 8 [OAdd 0].

Example C12_ex_hclosed : hclosed ex12_h 0.
Proof. apply hclosedb_hclosed. vm_compute. reflexivity. Qed.

Example C12_ex_missed :
  exists s', op_merge 16 ex12_s ex12_h 0 0 = Ok (s', Some [5; 6; 7]).
Proof. eexists. vm_compute. reflexivity. Qed.

Example C12_ex_unreachable_present :
  5 < cap_of ex12_h /\ tag ex12_h 5 <> 0 /\ ~ reach ptrue ex12_h 0 5.
Proof.
  split; [vm_compute; lia|]. split; [vm_compute; discriminate|].
  intros H.
  assert (P : forall u, reach ptrue ex12_h 0 u -> u < 3).
  { apply (reach_in_closed_set ptrue ex12_h 0 (fun u => u < 3)); [lia|].
    intros u a w Hu Hi _.
    destruct u as [|[|[|u]]]; try lia; vm_compute in Hi;
      repeat (destruct Hi as [Hi|Hi]; [injection Hi as <- <-; lia|]); destruct Hi. }
  specialize (P 5 H). lia.
Qed.

(** the same right graph without the extras: the call reports success, and
    the mapping sends 0, 1, 2 to 0 and two fresh vertices *)
Definition ex12_h2 : sodg :=
  build 16 8 [OAdd 0; OAdd 1; OAdd 2; OBind 0 1 (Alpha 0); OBind 0 2 (Alpha 1)].

Example C12_ex_ok :
  hclosed ex12_h2 0 /\
  exists s', op_merge 16 ex12_s ex12_h2 0 0 = Ok (s', None)
             /\ op_merge_mapped 16 ex12_s ex12_h2 0 0 = Ok (s', [(2, 2); (1, 1); (0, 0)]).
Proof. split; [apply hclosedb_hclosed; vm_compute; reflexivity|]. eexists. split; vm_compute; reflexivity. Qed.

(** the extended merge WITH a join: left 0 -a-> 1, 0 -b-> 2, right 0 -a-> 5,
    0 -b-> 5 (one kid under two names); the proved model answers Unmodelled,
    the extended one performs the join (left slot 1 becomes vacant) *)
Example C12x_ex_join_old : op_merge 16 (xg exj_l) (xg exj_r) 0 0 = Unmodelled.
Proof. exact exj_old. Qed.

Example C12x_ex_join_unreachable :
  hclosed (xg exj_r2) 0 /\
  exists x, x_merge 16 exj_l exj_r2 0 0 = Ok (x, Some [3]) /\ xh x = [1] /\ x_keys x = [0; 2; 3].
Proof. split; [exact exj2_hclosed | exact exj2_result]. Qed.
