(** * C13  slice / slice_some keep exactly what is reachable

    Property text: slice(v) and slice_some(v,p) return a graph whose present
    vertices are exactly those reachable from v along edges (accepted by p),
    under their original ids.  It contains every accepted edge between kept
    vertices and no edge that the source lacks.  The source graph is unchanged
    and the call terminates on cyclic graphs.
    Quantifier: every reachable graph and start vertex v such that everything
    reachable from v is present and numbers at most 14 vertices, every
    predicate p over (from, to, label).

    Reading guide.
    - [op_slice_some n order g v p] (Slice.v) is the model of
      [slice_some(v, p)] on a [Sodg<n>]; [order] stands for the iteration order
      of [HashSet::drain] and may be any function that permutes its argument.
      The result [Ok ng] excludes a panic and [OutOfFuel] (the closure loop is
      fuelled in the model): "terminates on cyclic graphs".
    - The model is a function from the source [g] to the result; [g] itself is
      not an output, so "the source graph is unchanged" holds by construction
      (in Rust: [&self]); there is nothing to state.
    - [reach p g v u] (Reach.v): [u] is reachable from [v] along edges that [p]
      accepts ([C13_def_reach]); [pclosed p g v]: such paths stay inside the
      slots of the graph ([C13_def_pclosed]).  Presence is [tag _ w <> 0].
    - [Inv n g] (Inv.v) is the representation invariant (group tables and
      tags agree, labels of a vertex pairwise distinct and at most [n]).
    - "at most 14": every duplicate-free list of reachable vertices has at
      most 14 elements.  The proof gives 16 ([C13_slice_some_16]) and 17 is
      refuted ([C13_finding_bound]).
    - The hypothesis that everything reachable is *present* is not needed by
      any theorem below and is therefore not assumed (slice does not look at
      the tags of the source; it re-adds a collected vertex that is still the
      target of an edge).
    - Self loops.  [rebuild] calls [bind(v1, v2, k)] for every kept edge, also
      when [v1 = v2], which [bind] documents as forbidden; on a still
      ungrouped vertex this enters the vertex twice in a member list and
      breaks [Inv] ([C13_finding_selfloop]).  The theorems about arbitrary
      sources therefore assume that no kept vertex has an edge to itself.
      States reached through the interface within the limits never contain
      a self loop nor an edge that leaves the graph, so for them neither this
      hypothesis nor [pclosed] is needed: [C13_reachable_state].
    - The slice copies *all* source edges between kept vertices, also those
      that [p] rejected ([p] only steers which vertices are kept); this
      satisfies "every accepted edge between kept vertices and no edge that
      the source lacks", stated as [C13_accepted_edges_kept] and
      [C13_no_foreign_edge]; [C13_edges] is the exact edge set and
      [C13_slice_some] the exact edge lists (order included).
    - Data are not copied: every vertex of the slice is without data
      ([C13_no_data]); the property text does not speak about data.
    Proofs: SliceFacts.v (closure loop), SliceFacts2.v (rebuild loop). *)

From Sodg Require Import SliceFacts2 SliceWeak SpecDec History.

(** ** the definitions the statements use, unfolded *)

Theorem C13_def_reach : forall p g v w,
  reach p g v w <->
  w = v \/ exists u a, reach p g v u /\ In (a, w) (edg g u) /\ p u w a = true.
Proof. exact reach_unfold. Qed.
Check C13_def_reach : forall p g v w,
  reach p g v w <->
  w = v \/ exists u a, reach p g v u /\ In (a, w) (edg g u) /\ p u w a = true.
Print Assumptions C13_def_reach.

Theorem C13_def_pclosed : forall p g v,
  pclosed p g v <->
  v < cap_of g /\
  forall u a w, reach p g v u -> In (a, w) (edg g u) -> p u w a = true -> w < cap_of g.
Proof. exact pclosed_unfold. Qed.
Check C13_def_pclosed : forall p g v,
  pclosed p g v <->
  v < cap_of g /\
  forall u a w, reach p g v u -> In (a, w) (edg g u) -> p u w a = true -> w < cap_of g.
Print Assumptions C13_def_pclosed.

(** ** the closure loop: terminates on every graph, in any iteration order,
    with exactly the reachable set *)

Theorem C13_closure : forall order p g v,
  (forall l, Permutation (order l) l) -> pclosed p g v ->
  exists done,
    closure (cap_of g + 2) order p g [] [v] = Ok done
    /\ NoDup done /\ (forall w, In w done <-> reach p g v w).
Proof. exact closure_correct. Qed.
Check C13_closure : forall order p g v,
  (forall l, Permutation (order l) l) -> pclosed p g v ->
  exists done,
    closure (cap_of g + 2) order p g [] [v] = Ok done
    /\ NoDup done /\ (forall w, In w done <-> reach p g v w).
Print Assumptions C13_closure.

(** ** slice_some *)

Theorem C13_slice_some : forall n order p g v,
  Inv n g -> (forall l, Permutation (order l) l) -> pclosed p g v ->
  (forall rs, NoDup rs -> (forall u, In u rs -> reach p g v u) -> length rs <= 14) ->
  (forall u a, reach p g v u -> ~ In (a, u) (edg g u)) ->
  exists ng,
    op_slice_some n order g v p = Ok ng
    /\ Inv n ng /\ cap_of ng = cap_of g
    /\ (forall w, tag ng w <> 0 <-> reach p g v w)
    /\ (exists kept : nat -> bool,
          (forall w, kept w = true <-> reach p g v w)
          /\ forall w, edg ng w =
                       if kept w then filter (fun e : label * nat => kept (snd e)) (edg g w) else [])
    /\ (forall w, prs ng w = PEmpty).
Proof. exact slice_some_correct. Qed.
Check C13_slice_some : forall n order p g v,
  Inv n g -> (forall l, Permutation (order l) l) -> pclosed p g v ->
  (forall rs, NoDup rs -> (forall u, In u rs -> reach p g v u) -> length rs <= 14) ->
  (forall u a, reach p g v u -> ~ In (a, u) (edg g u)) ->
  exists ng,
    op_slice_some n order g v p = Ok ng
    /\ Inv n ng /\ cap_of ng = cap_of g
    /\ (forall w, tag ng w <> 0 <-> reach p g v w)
    /\ (exists kept : nat -> bool,
          (forall w, kept w = true <-> reach p g v w)
          /\ forall w, edg ng w =
                       if kept w then filter (fun e : label * nat => kept (snd e)) (edg g w) else [])
    /\ (forall w, prs ng w = PEmpty).
Print Assumptions C13_slice_some.

(** the same with the bound 16 (one full group) instead of 14 *)
Theorem C13_slice_some_16 : forall n order p g v,
  Inv n g -> (forall l, Permutation (order l) l) -> pclosed p g v ->
  (forall rs, NoDup rs -> (forall u, In u rs -> reach p g v u) -> length rs <= 16) ->
  (forall u a, reach p g v u -> ~ In (a, u) (edg g u)) ->
  exists ng (kept : nat -> bool),
    op_slice_some n order g v p = Ok ng
    /\ Inv n ng /\ cap_of ng = cap_of g
    /\ (forall w, kept w = true <-> reach p g v w)
    /\ (forall w, tag ng w <> 0 <-> reach p g v w)
    /\ (forall w, edg ng w =
                  if kept w then filter (fun e : label * nat => kept (snd e)) (edg g w) else [])
    /\ (forall w, prs ng w = PEmpty).
Proof. exact slice_some_correct_16. Qed.
Check C13_slice_some_16 : forall n order p g v,
  Inv n g -> (forall l, Permutation (order l) l) -> pclosed p g v ->
  (forall rs, NoDup rs -> (forall u, In u rs -> reach p g v u) -> length rs <= 16) ->
  (forall u a, reach p g v u -> ~ In (a, u) (edg g u)) ->
  exists ng (kept : nat -> bool),
    op_slice_some n order g v p = Ok ng
    /\ Inv n ng /\ cap_of ng = cap_of g
    /\ (forall w, kept w = true <-> reach p g v w)
    /\ (forall w, tag ng w <> 0 <-> reach p g v w)
    /\ (forall w, edg ng w =
                  if kept w then filter (fun e : label * nat => kept (snd e)) (edg g w) else [])
    /\ (forall w, prs ng w = PEmpty).
Print Assumptions C13_slice_some_16.

(** the edges of the slice are the source edges between kept vertices *)
Theorem C13_edges : forall n order p g v ng,
  Inv n g -> (forall l, Permutation (order l) l) -> pclosed p g v ->
  (forall rs, NoDup rs -> (forall u, In u rs -> reach p g v u) -> length rs <= 14) ->
  (forall u a, reach p g v u -> ~ In (a, u) (edg g u)) ->
  op_slice_some n order g v p = Ok ng ->
  forall w a t,
    In (a, t) (edg ng w) <-> reach p g v w /\ In (a, t) (edg g w) /\ reach p g v t.
Proof. exact slice_some_edges. Qed.
Check C13_edges : forall n order p g v ng,
  Inv n g -> (forall l, Permutation (order l) l) -> pclosed p g v ->
  (forall rs, NoDup rs -> (forall u, In u rs -> reach p g v u) -> length rs <= 14) ->
  (forall u a, reach p g v u -> ~ In (a, u) (edg g u)) ->
  op_slice_some n order g v p = Ok ng ->
  forall w a t,
    In (a, t) (edg ng w) <-> reach p g v w /\ In (a, t) (edg g w) /\ reach p g v t.
Print Assumptions C13_edges.

(** every accepted edge that starts at a kept vertex is in the slice, and its
    target is kept *)
Theorem C13_accepted_edges_kept : forall n order p g v ng,
  Inv n g -> (forall l, Permutation (order l) l) -> pclosed p g v ->
  (forall rs, NoDup rs -> (forall u, In u rs -> reach p g v u) -> length rs <= 14) ->
  (forall u a, reach p g v u -> ~ In (a, u) (edg g u)) ->
  op_slice_some n order g v p = Ok ng ->
  forall w a t, tag ng w <> 0 -> In (a, t) (edg g w) -> p w t a = true ->
    In (a, t) (edg ng w) /\ tag ng t <> 0.
Proof. exact slice_some_accepted_edges_kept. Qed.
Check C13_accepted_edges_kept : forall n order p g v ng,
  Inv n g -> (forall l, Permutation (order l) l) -> pclosed p g v ->
  (forall rs, NoDup rs -> (forall u, In u rs -> reach p g v u) -> length rs <= 14) ->
  (forall u a, reach p g v u -> ~ In (a, u) (edg g u)) ->
  op_slice_some n order g v p = Ok ng ->
  forall w a t, tag ng w <> 0 -> In (a, t) (edg g w) -> p w t a = true ->
    In (a, t) (edg ng w) /\ tag ng t <> 0.
Print Assumptions C13_accepted_edges_kept.

(** every edge of the slice is an edge of the source, between kept vertices *)
Theorem C13_no_foreign_edge : forall n order p g v ng,
  Inv n g -> (forall l, Permutation (order l) l) -> pclosed p g v ->
  (forall rs, NoDup rs -> (forall u, In u rs -> reach p g v u) -> length rs <= 14) ->
  (forall u a, reach p g v u -> ~ In (a, u) (edg g u)) ->
  op_slice_some n order g v p = Ok ng ->
  forall w a t, In (a, t) (edg ng w) -> In (a, t) (edg g w) /\ tag ng w <> 0 /\ tag ng t <> 0.
Proof. exact slice_some_no_foreign_edge. Qed.
Check C13_no_foreign_edge : forall n order p g v ng,
  Inv n g -> (forall l, Permutation (order l) l) -> pclosed p g v ->
  (forall rs, NoDup rs -> (forall u, In u rs -> reach p g v u) -> length rs <= 14) ->
  (forall u a, reach p g v u -> ~ In (a, u) (edg g u)) ->
  op_slice_some n order g v p = Ok ng ->
  forall w a t, In (a, t) (edg ng w) -> In (a, t) (edg g w) /\ tag ng w <> 0 /\ tag ng t <> 0.
Print Assumptions C13_no_foreign_edge.

(** no vertex of the slice carries data *)
Theorem C13_no_data : forall n order p g v ng,
  Inv n g -> (forall l, Permutation (order l) l) -> pclosed p g v ->
  (forall rs, NoDup rs -> (forall u, In u rs -> reach p g v u) -> length rs <= 14) ->
  (forall u a, reach p g v u -> ~ In (a, u) (edg g u)) ->
  op_slice_some n order g v p = Ok ng ->
  forall w, prs ng w = PEmpty /\ has_data ng w = false.
Proof. exact slice_some_no_data. Qed.
Check C13_no_data : forall n order p g v ng,
  Inv n g -> (forall l, Permutation (order l) l) -> pclosed p g v ->
  (forall rs, NoDup rs -> (forall u, In u rs -> reach p g v u) -> length rs <= 14) ->
  (forall u a, reach p g v u -> ~ In (a, u) (edg g u)) ->
  op_slice_some n order g v p = Ok ng ->
  forall w, prs ng w = PEmpty /\ has_data ng w = false.
Print Assumptions C13_no_data.

(** ** slice *)

Theorem C13_slice : forall n order g v,
  Inv n g -> (forall l, Permutation (order l) l) -> closed g v ->
  (forall rs, NoDup rs -> (forall u, In u rs -> reach ptrue g v u) -> length rs <= 14) ->
  (forall u a, reach ptrue g v u -> ~ In (a, u) (edg g u)) ->
  exists ng,
    op_slice n order g v = Ok ng
    /\ Inv n ng /\ cap_of ng = cap_of g
    /\ (forall w, tag ng w <> 0 <-> reach ptrue g v w)
    /\ (forall w a t, In (a, t) (edg ng w) <-> reach ptrue g v w /\ In (a, t) (edg g w))
    /\ (forall w, reach ptrue g v w -> edg ng w = edg g w)
    /\ (forall w, prs ng w = PEmpty).
Proof. exact slice_correct. Qed.
Check C13_slice : forall n order g v,
  Inv n g -> (forall l, Permutation (order l) l) -> closed g v ->
  (forall rs, NoDup rs -> (forall u, In u rs -> reach ptrue g v u) -> length rs <= 14) ->
  (forall u a, reach ptrue g v u -> ~ In (a, u) (edg g u)) ->
  exists ng,
    op_slice n order g v = Ok ng
    /\ Inv n ng /\ cap_of ng = cap_of g
    /\ (forall w, tag ng w <> 0 <-> reach ptrue g v w)
    /\ (forall w a t, In (a, t) (edg ng w) <-> reach ptrue g v w /\ In (a, t) (edg g w))
    /\ (forall w, reach ptrue g v w -> edg ng w = edg g w)
    /\ (forall w, prs ng w = PEmpty).
Print Assumptions C13_slice.

(** ** the states of the property's quantifier: reached from the empty graph
    by calls within the limits ([within_limits], Spec.v).  No closedness and
    no self-loop hypothesis: they hold in every such state. *)

Theorem C13_reachable_state : forall n cap os g rs order p v,
  within_limits n cap sinit os -> run n (op_empty cap) os = Ok (g, rs) ->
  (forall l, Permutation (order l) l) -> v < cap ->
  (forall ks, NoDup ks -> (forall u, In u ks -> reach p g v u) -> length ks <= 14) ->
  exists ng,
    op_slice_some n order g v p = Ok ng
    /\ Inv n ng /\ cap_of ng = cap_of g
    /\ (forall w, tag ng w <> 0 <-> reach p g v w)
    /\ (forall w a t, In (a, t) (edg ng w) <-> reach p g v w /\ In (a, t) (edg g w) /\ reach p g v t)
    /\ (forall w, prs ng w = PEmpty).
Proof. exact slice_some_reachable. Qed.
Check C13_reachable_state : forall n cap os g rs order p v,
  within_limits n cap sinit os -> run n (op_empty cap) os = Ok (g, rs) ->
  (forall l, Permutation (order l) l) -> v < cap ->
  (forall ks, NoDup ks -> (forall u, In u ks -> reach p g v u) -> length ks <= 14) ->
  exists ng,
    op_slice_some n order g v p = Ok ng
    /\ Inv n ng /\ cap_of ng = cap_of g
    /\ (forall w, tag ng w <> 0 <-> reach p g v w)
    /\ (forall w a t, In (a, t) (edg ng w) <-> reach p g v w /\ In (a, t) (edg g w) /\ reach p g v t)
    /\ (forall w, prs ng w = PEmpty).
Print Assumptions C13_reachable_state.

(** ** non-vacuity *)

(** The example graph [ex_api] (SliceFacts2.v) is built by ten interface
    calls: vertices 0..3, data on 1, edges 0 -a1-> 1, 0 -a0-> 1, 1 -pi-> 2,
    2 -a0-> 0 (a cycle with a parallel edge) and 3 -a0-> 0 (3 is not reachable
    from 0).  It satisfies every hypothesis of [C13_slice_some] for n = 4,
    start vertex 0, the iteration order [rev]; the slice is the graph that the
    seven calls below build: 3 is gone, the data of 1 is gone. *)
Example C13_example_cyclic :
  within_limits 4 5 sinit ex_api_calls
  /\ run 4 (op_empty 5) ex_api_calls = Ok (ex_api, snd (srun sinit ex_api_calls))
  /\ Inv 4 ex_api
  /\ (forall l : list nat, Permutation (rev l) l)
  /\ pclosed ptrue ex_api 0
  /\ (forall rs, NoDup rs -> (forall u, In u rs -> reach ptrue ex_api 0 u) -> length rs <= 14)
  /\ (forall u a, reach ptrue ex_api 0 u -> ~ In (a, u) (edg ex_api u))
  /\ has_data ex_api 1 = true
  /\ op_slice_some 4 (@rev nat) ex_api 0 ptrue =
       Ok (built 4 5 [OAdd 0; OAdd 1; OBind 0 1 (Alpha 1); OBind 0 1 (Alpha 0);
                      OAdd 2; OBind 1 2 (Greek 945); OBind 2 0 (Alpha 0)]).
Proof.
  assert (Hc : pclosed ptrue ex_api 0) by (apply closedb_pclosed; [vm_compute; reflexivity | vm_compute; lia]).
  split; [apply within_limitsb_spec; vm_compute; reflexivity|].
  split; [vm_compute; reflexivity|].
  split; [exact ex_api_inv|].
  split; [intros l; apply Permutation_sym, Permutation_rev|].
  split; [exact Hc|].
  split; [apply (bound_of_cap ptrue ex_api 0 14 Hc); vm_compute; lia|].
  split; [|split; vm_compute; reflexivity].
  intros u a Hr. apply noselfb_spec; [vm_compute; reflexivity|].
  eapply pclosed_reach_lt; eauto.
Qed.

(** A predicate that rejects the edge 0 -a1-> 1: vertex 1 is still reached
    through 0 -a0-> 1, all three vertices are kept, and the rejected edge is
    copied as well (the slice is the same graph as above). *)
Example C13_example_other_path :
  let p : pred := fun _ _ a => negb (label_eqb a (Alpha 1)) in
  pclosed p ex_api 0
  /\ (forall rs, NoDup rs -> (forall u, In u rs -> reach p ex_api 0 u) -> length rs <= 14)
  /\ (forall u a, reach p ex_api 0 u -> ~ In (a, u) (edg ex_api u))
  /\ p 0 1 (Alpha 1) = false
  /\ reach p ex_api 0 1
  /\ exists ng, op_slice_some 4 (@rev nat) ex_api 0 p = Ok ng
       /\ op_keys ng = [0; 1; 2]
       /\ edg ng 0 = [(Alpha 1, 1); (Alpha 0, 1)].
Proof.
  cbv zeta.
  set (p := fun (_ _ : nat) (a : label) => negb (label_eqb a (Alpha 1))).
  assert (Hc : pclosed p ex_api 0) by (apply closedb_pclosed; [vm_compute; reflexivity | vm_compute; lia]).
  split; [exact Hc|].
  split; [apply (bound_of_cap p ex_api 0 14 Hc); vm_compute; lia|].
  split.
  { intros u a Hr. apply noselfb_spec; [vm_compute; reflexivity|]. eapply pclosed_reach_lt; eauto. }
  split; [reflexivity|].
  split; [apply (reach_edge p ex_api 0 (Alpha 0) 1); [vm_compute; auto | reflexivity]|].
  exists (match op_slice_some 4 (@rev nat) ex_api 0 p with Ok ng => ng | _ => op_empty 0 end).
  split; [vm_compute; reflexivity|]. split; vm_compute; reflexivity.
Qed.

(** A predicate that rejects the only edge to 2: the slice keeps 0 and 1, and
    the edge 1 -pi-> 2 is dropped because its target is not kept. *)
Example C13_example_cut :
  let p : pred := fun _ _ a => match a with Greek _ => false | _ => true end in
  pclosed p ex_api 0
  /\ ~ reach p ex_api 0 2
  /\ exists ng, op_slice_some 4 (@rev nat) ex_api 0 p = Ok ng
       /\ op_keys ng = [0; 1]
       /\ edg ng 0 = [(Alpha 1, 1); (Alpha 0, 1)] /\ edg ng 1 = [] /\ edg ng 2 = [].
Proof.
  cbv zeta.
  set (p := fun (_ _ : nat) (a : label) => match a with Greek _ => false | _ => true end).
  split; [apply closedb_pclosed; [vm_compute; reflexivity | vm_compute; lia]|].
  split.
  { intros H.
    assert (Hs : forall u, reach p ex_api 0 u -> u = 0 \/ u = 1).
    { assert (E0 : edg ex_api 0 = [(Alpha 1, 1); (Alpha 0, 1)]) by (vm_compute; reflexivity).
      assert (E1 : edg ex_api 1 = [(Greek 945, 2)]) by (vm_compute; reflexivity).
      apply (reach_in_closed_set p ex_api 0 (fun u => u = 0 \/ u = 1)); [left; reflexivity|].
      intros u a w [->| ->] Hin Hp.
      - rewrite E0 in Hin. destruct Hin as [E|[E|[]]]; inversion E; [right|right]; reflexivity.
      - rewrite E1 in Hin. destruct Hin as [E|[]]; inversion E; subst. discriminate Hp. }
    destruct (Hs 2 H); discriminate. }
  exists (match op_slice_some 4 (@rev nat) ex_api 0 p with Ok ng => ng | _ => op_empty 0 end).
  split; [vm_compute; reflexivity|]. repeat split; vm_compute; reflexivity.
Qed.

(** ** findings, with evidence *)

(** a self loop in the source: slice returns a graph that violates the
    representation invariant (vertex 0 is listed twice in its group) *)
Example C13_finding_selfloop :
  exists ng, op_slice 4 (fun l => l) ex_selfloop 0 = Ok ng
    /\ tag ng 0 = 2 /\ members ng 2 = [0; 0] /\ edg ng 0 = [(Alpha 0, 0)]
    /\ ~ Inv 4 ng.
Proof. exact slice_selfloop. Qed.

(** 17 kept vertices: a state reachable within all limits, closed, without
    self loops, on which slice panics; with 16 it succeeds *)
Example C13_finding_bound :
  (within_limitsb 1 17 sinit (two_chains 16) = true
   /\ closedb (built 1 17 (two_chains 16)) = true
   /\ noselfb (built 1 17 (two_chains 16)) = true
   /\ op_slice 1 (fun l => l) (built 1 17 (two_chains 16)) 0 = Panic PStackFull)
  /\ (within_limitsb 1 16 sinit (two_chains 15) = true
      /\ is_ok (op_slice 1 (fun l => l) (built 1 16 (two_chains 15)) 0) = true).
Proof. split; [exact slice_chain_17 | exact slice_chain_16]. Qed.

(** ** the source need not satisfy the invariant

    The property text limits the sliced part ("everything reachable from v is
    present and numbers at most 14 vertices"), not the source.  [rebuild] reads
    the source through its edge lists and its capacity alone, so [Inv n g] can
    be replaced by what [Inv] says about edge lists ([src_edges_ok]: labels of
    a vertex pairwise distinct, at most [n] of them).  This covers states the
    real code reaches beyond the group limit, e.g. a pair bound while all 14
    group slots are taken (its vertices keep tag 1 although they have edges,
    and [Inv] fails: [C13_ex_beyond_limits]).  Proofs: SliceWeak.v. *)

Theorem C13_def_src_edges_ok :
  forall n g, src_edges_ok n g <-> (forall v, NoDup (map fst (edg g v)) /\ length (edg g v) <= n).
Proof. exact (fun n g => conj (fun H => H) (fun H => H)). Qed.

Check C13_def_src_edges_ok :
  forall n g, src_edges_ok n g <-> (forall v, NoDup (map fst (edg g v)) /\ length (edg g v) <= n).
Print Assumptions C13_def_src_edges_ok.

Theorem C13_inv_src_edges_ok :
  forall n g, Inv n g -> src_edges_ok n g.
Proof. exact inv_src_edges_ok. Qed.

Check C13_inv_src_edges_ok :
  forall n g, Inv n g -> src_edges_ok n g.
Print Assumptions C13_inv_src_edges_ok.

Theorem C13_slice_some_any_source :
  forall n order p g v,
  src_edges_ok n g -> (forall l, Permutation (order l) l) -> pclosed p g v ->
  (forall rs, NoDup rs -> (forall u, In u rs -> reach p g v u) -> length rs <= 14) ->
  (forall u a, reach p g v u -> ~ In (a, u) (edg g u)) ->
  exists ng,
    op_slice_some n order g v p = Ok ng
    /\ Inv n ng /\ cap_of ng = cap_of g
    /\ (forall w, tag ng w <> 0 <-> reach p g v w)
    /\ (exists kept : nat -> bool,
          (forall w, kept w = true <-> reach p g v w)
          /\ forall w, edg ng w =
                       if kept w then filter (fun e : label * nat => kept (snd e)) (edg g w) else [])
    /\ (forall w, prs ng w = PEmpty).
Proof. exact slice_some_correct_weak. Qed.

Check C13_slice_some_any_source :
  forall n order p g v,
  src_edges_ok n g -> (forall l, Permutation (order l) l) -> pclosed p g v ->
  (forall rs, NoDup rs -> (forall u, In u rs -> reach p g v u) -> length rs <= 14) ->
  (forall u a, reach p g v u -> ~ In (a, u) (edg g u)) ->
  exists ng,
    op_slice_some n order g v p = Ok ng
    /\ Inv n ng /\ cap_of ng = cap_of g
    /\ (forall w, tag ng w <> 0 <-> reach p g v w)
    /\ (exists kept : nat -> bool,
          (forall w, kept w = true <-> reach p g v w)
          /\ forall w, edg ng w =
                       if kept w then filter (fun e : label * nat => kept (snd e)) (edg g w) else [])
    /\ (forall w, prs ng w = PEmpty).
Print Assumptions C13_slice_some_any_source.

Theorem C13_edges_any_source :
  forall n order p g v ng,
  src_edges_ok n g -> (forall l, Permutation (order l) l) -> pclosed p g v ->
  (forall rs, NoDup rs -> (forall u, In u rs -> reach p g v u) -> length rs <= 14) ->
  (forall u a, reach p g v u -> ~ In (a, u) (edg g u)) ->
  op_slice_some n order g v p = Ok ng ->
  forall w a t,
    In (a, t) (edg ng w) <-> reach p g v w /\ In (a, t) (edg g w) /\ reach p g v t.
Proof. exact slice_some_edges_weak. Qed.

Check C13_edges_any_source :
  forall n order p g v ng,
  src_edges_ok n g -> (forall l, Permutation (order l) l) -> pclosed p g v ->
  (forall rs, NoDup rs -> (forall u, In u rs -> reach p g v u) -> length rs <= 14) ->
  (forall u a, reach p g v u -> ~ In (a, u) (edg g u)) ->
  op_slice_some n order g v p = Ok ng ->
  forall w a t,
    In (a, t) (edg ng w) <-> reach p g v w /\ In (a, t) (edg g w) /\ reach p g v t.
Print Assumptions C13_edges_any_source.

Example C13_ex_beyond_limits :
  ~ Inv 16 ex_full
  /\ src_edges_ok 16 ex_full
  /\ (forall l : list nat, Permutation ((fun x => x) l) l)
  /\ pclosed ptrue ex_full 40
  /\ (forall rs, NoDup rs -> (forall u, In u rs -> reach ptrue ex_full 40 u) -> length rs <= 14)
  /\ (forall u a, reach ptrue ex_full 40 u -> ~ In (a, u) (edg ex_full u))
  /\ exists ng, op_slice 16 (fun x => x) ex_full 40 = Ok ng
       /\ Inv 16 ng
       /\ op_keys ng = [40; 41; 42]
       /\ edg ng 40 = [(Alpha 1, 41)] /\ edg ng 41 = [(Alpha 2, 42)] /\ edg ng 42 = []
       /\ tag ng 40 = 2 /\ tag ng 41 = 2 /\ tag ng 42 = 2
       /\ ng = built 16 48 [OAdd 40; OAdd 41; OBind 40 41 (Alpha 1); OAdd 42; OBind 41 42 (Alpha 2)].
Proof. exact slice_weak_example. Qed.

(** ** slicing a slice changes nothing (SliceTwice.v): the slice is closed
    under its own reachability, so [slice(v)] of it has the same present
    vertices and the same edges, for every enumeration order of either call *)

From Sodg Require Import SliceTwice.

Theorem C13_slice_of_slice : forall n order order' g v,
  Inv n g -> (forall l, Permutation (order l) l) -> (forall l, Permutation (order' l) l) ->
  closed g v ->
  (forall rs, NoDup rs -> (forall u, In u rs -> reach ptrue g v u) -> length rs <= 14) ->
  (forall u a, reach ptrue g v u -> ~ In (a, u) (edg g u)) ->
  exists ng ng',
    op_slice n order g v = Ok ng /\ op_slice n order' ng v = Ok ng'
    /\ (forall w, tag ng' w <> 0 <-> tag ng w <> 0)
    /\ (forall w a t, In (a, t) (edg ng' w) <-> In (a, t) (edg ng w))
    /\ (forall w, tag ng w <> 0 -> edg ng' w = edg ng w)
    /\ (forall w, reach ptrue ng' v w <-> reach ptrue g v w)
    /\ (forall w, prs ng' w = PEmpty).
Proof. exact slice_twice. Qed.
Check C13_slice_of_slice : forall n order order' g v,
  Inv n g -> (forall l, Permutation (order l) l) -> (forall l, Permutation (order' l) l) ->
  closed g v ->
  (forall rs, NoDup rs -> (forall u, In u rs -> reach ptrue g v u) -> length rs <= 14) ->
  (forall u a, reach ptrue g v u -> ~ In (a, u) (edg g u)) ->
  exists ng ng',
    op_slice n order g v = Ok ng /\ op_slice n order' ng v = Ok ng'
    /\ (forall w, tag ng' w <> 0 <-> tag ng w <> 0)
    /\ (forall w a t, In (a, t) (edg ng' w) <-> In (a, t) (edg ng w))
    /\ (forall w, tag ng w <> 0 -> edg ng' w = edg ng w)
    /\ (forall w, reach ptrue ng' v w <-> reach ptrue g v w)
    /\ (forall w, prs ng' w = PEmpty).
Print Assumptions C13_slice_of_slice.

Theorem C13_reach_in_slice : forall g ng v,
  (forall w a t, In (a, t) (edg ng w) <-> reach ptrue g v w /\ In (a, t) (edg g w)) ->
  forall w, reach ptrue ng v w <-> reach ptrue g v w.
Proof. exact reach_slice_iff. Qed.
Check C13_reach_in_slice : forall g ng v,
  (forall w a t, In (a, t) (edg ng w) <-> reach ptrue g v w /\ In (a, t) (edg g w)) ->
  forall w, reach ptrue ng v w <-> reach ptrue g v w.
Print Assumptions C13_reach_in_slice.

(** non-vacuity: the cyclic example above, sliced twice with two different
    enumeration orders, is the same graph as sliced once *)
Example C13_example_slice_of_slice :
  match op_slice 4 (@rev nat) ex_api 0 with
  | Ok ng => op_slice 4 (fun l => l) ng 0 = Ok ng
  | _ => False
  end.
Proof. vm_compute. reflexivity. Qed.
