(** * Hex: model of [sodg::Hex] (src/hex.rs), representation included.

    [HVector l]  models [Hex::Vector(l)];
    [HBytes a n] models [Hex::Bytes(a, n)] with [a] the eight array bytes
    (padding included) and [n] the used length.  Both variants are public in
    the crate, so values with non-zero padding exist. *)

From Sodg Require Export Base Text.

Inductive hex :=
| HVector (l : list N)
| HBytes (a : list N) (n : nat).

Definition HEX_SIZE : nat := 8.

Definition wf_byte (b : N) : bool := (b <? 256)%N.

(** what the Rust types guarantee: eight array bytes, every byte < 256;
    [n <= 8] is the crate's own representation invariant *)
Definition wf_hex (h : hex) : bool :=
  match h with
  | HVector l => forallb wf_byte l
  | HBytes a n => (length a =? 8) && forallb wf_byte a && (n <=? 8)
  end.

Definition blank8 : list N := repeat 0%N 8.

Definition hex_empty : hex := HBytes blank8 0.

(** [bytes()]: the abstraction every theorem targets *)
Definition bytes (h : hex) : list N :=
  match h with
  | HVector l => l
  | HBytes a n => firstn n a
  end.

Definition hex_len (h : hex) : nat :=
  match h with
  | HVector l => length l
  | HBytes _ n => n
  end.

Definition hex_is_empty (h : hex) : bool := hex_len h =? 0.

Definition from_slice (l : list N) : hex :=
  if length l <=? HEX_SIZE
  then HBytes (l ++ repeat 0%N (HEX_SIZE - length l)) (length l)
  else HVector l.

Definition from_vec (l : list N) : hex :=
  if length l <=? HEX_SIZE then from_slice l else HVector l.

Definition hex_to_vec (h : hex) : list N := bytes h.

Definition bytes_eqb (a b : list N) : bool := list_eqb N.eqb a b.

(** [PartialEq]: compares [bytes()] *)
Definition hex_eqb (a b : hex) : bool := bytes_eqb (bytes a) (bytes b).

(** ** slices of [u8]: the reference semantics of Rust indexing *)

Definition nlen (l : list N) : N := N.of_nat (length l).

(** [&l[s..e]] *)
Definition sl (l : list N) (s e : N) : outcome (list N) :=
  if ((s <=? e) && (e <=? nlen l))%N
  then Ok (firstn (N.to_nat (e - s)) (skipn (N.to_nat s) l))
  else Panic PIndex.

(** [l[i]] *)
Definition idx (l : list N) (i : N) : outcome N :=
  if (i <? nlen l)%N then Ok (nth (N.to_nat i) l 0%N) else Panic PIndex.

Inductive rkind := RRange | RFrom | RFull | RIncl | RTo | RToIncl.

(** the six range kinds applied to a slice; [s]/[e] are ignored where the
    kind has no such bound *)
Definition sl_kind (l : list N) (k : rkind) (s e : N) : outcome (list N) :=
  match k with
  | RRange => sl l s e
  | RFrom => sl l s (nlen l)
  | RFull => Ok l
  | RIncl => if (e =? usize_max)%N then Panic PIndex else sl l s (e + 1)
  | RTo => sl l 0 e
  | RToIncl => if (e =? usize_max)%N then Panic PIndex else sl l 0 (e + 1)
  end.

(** ** the accessors of [Hex], per representation, as written in hex.rs *)

Definition hex_index (h : hex) (i : N) : outcome N :=
  match h with
  | HVector l => idx l i
  | HBytes a n => if (i <? N.of_nat n)%N then idx a i else Panic PAssert
  end.

Definition hex_range (h : hex) (k : rkind) (s e : N) : outcome (list N) :=
  match h with
  | HVector l => sl_kind l k s e
  | HBytes a n =>
      let len := N.of_nat n in
      match k with
      | RRange => if (e <=? len)%N then sl a s e else Panic PAssert
      | RFrom => if (s <=? len)%N then sl a s len else Panic PAssert
      | RFull => sl a 0 len
      | RIncl => if (e <? len)%N then sl_kind a RIncl s e else Panic PAssert
      | RTo => if (e <=? len)%N then sl_kind a RTo s e else Panic PAssert
      | RToIncl => if (e <? len)%N then sl_kind a RToIncl s e else Panic PAssert
      end
  end.

(** [bytes()] itself indexes the array with [..size] *)
Definition hex_bytes_checked (h : hex) : outcome (list N) :=
  match h with
  | HVector l => Ok l
  | HBytes a n => sl a 0 (N.of_nat n)
  end.

Definition hex_byte_at (h : hex) (pos : N) : outcome N := idx (bytes h) pos.

Definition hex_tail (h : hex) (skip : N) : outcome hex :=
  r <- sl (bytes h) skip (nlen (bytes h)) ;; Ok (from_vec r).

(** [print()] *)
Definition hex_print (h : hex) : text :=
  match bytes h with
  | [] => [ch_dash; ch_dash]
  | bs => join [ch_dash] (map print_byte_upper bs)
  end.

(** [from_str()]: drop every '-', then [hex::decode] *)
Definition hex_from_str (t : text) : option hex :=
  match hex_decode (filter (fun c => negb (c =? ch_dash)%N) t) with
  | Some bs => Some (from_vec bs)
  | None => None
  end.

(** [concat()], as written: the spill arm copies the whole array *)
Definition hex_concat (a h : hex) : hex :=
  match a with
  | HVector v => HVector (v ++ bytes h)
  | HBytes b l =>
      if l + hex_len h <=? HEX_SIZE
      then HBytes (firstn l b ++ bytes h ++ skipn (l + hex_len h) b) (l + hex_len h)
      else HVector (b ++ bytes h)
  end.

(** ** integers and floats *)

Definition be_to_N (l : list N) : N := fold_left (fun acc b => (acc * 256 + b)%N) l 0%N.

Definition N_to_be8 (n : N) : list N :=
  [ (n / 72057594037927936) mod 256; (n / 281474976710656) mod 256;
    (n / 1099511627776) mod 256; (n / 4294967296) mod 256;
    (n / 16777216) mod 256; (n / 65536) mod 256; (n / 256) mod 256; n mod 256 ]%N.

Definition two63 : N := 9223372036854775808.
Definition two64 : N := 18446744073709551616.

(** [to_i64()]: [None] models the [Err] for a length other than eight *)
Definition hex_to_i64 (h : hex) : option Z :=
  let b := bytes h in
  if length b =? 8
  then let u := be_to_N b in
       Some (if (u <? two63)%N then Z.of_N u else (Z.of_N u - Z.of_N two64)%Z)
  else None.

(** [From<i64>] *)
Definition hex_from_i64 (z : Z) : hex :=
  from_slice (N_to_be8 (Z.to_N (z mod Z.of_N two64))).

(** [f64] values are modelled by their IEEE-754 bit pattern ([to_bits]);
    [to_be_bytes]/[from_be_bytes] are bit transmutations *)
Definition hex_to_f64_bits (h : hex) : option N :=
  let b := bytes h in
  if length b =? 8 then Some (be_to_N b) else None.

Definition hex_from_f64_bits (w : N) : hex := from_slice (N_to_be8 (w mod two64)%N).
