(** * Refine: the model of the code refines the reference specification.

    [R g s] relates a state [g] of the model of the code (slots, member
    stacks, counters, sentinels) to a state [s] of the reference model of
    Spec.v (present set, abstract group names, unread flags, last-write maps).

    Main theorem [sim_step]: from related states, a call that is within the
    capacity limits *as judged on the reference model* ([pre]) does not panic
    in the model of the code, returns the same result as the reference model,
    and leads to related states again (and keeps [Inv]). *)

From Sodg Require Export Inv Print.
From Coq Require Import Permutation.

Definition present (g : sodg) (v : nat) : bool := negb (tag g v =? 0).

Record R (g : sodg) (s : spec) : Prop := {
  r_bound : s_bound s <= cap_of g;
  r_pres : forall v, s_present s v = present g v;
  r_inb : forall v, s_present s v = true -> v < s_bound s;
  r_ungr : forall v, s_present s v = true -> (s_grp s v = None <-> tag g v = 1);
  r_grp : forall v w, s_present s v = true -> s_present s w = true -> s_grp s v <> None ->
          (s_grp s v = s_grp s w <-> tag g v = tag g w);
  r_fresh : forall v k, s_present s v = true -> s_grp s v = Some k -> k < s_fresh s;
  r_unread : forall v, s_present s v = true -> s_unread s v = is_stored g v;
  r_edges : forall v, s_present s v = true -> s_edges s v = edg g v;
  r_data : forall v, s_present s v = true ->
           s_data s v = if has_data g v then Some (dat g v) else None;
  r_alloc : s_alloc s = g_next g
}.

Arguments r_bound {g s} _.
Arguments r_pres {g s} _ _.
Arguments r_inb {g s} _ _ _.
Arguments r_ungr {g s} _ _ _.
Arguments r_grp {g s} _ _ _ _ _ _.
Arguments r_fresh {g s} _ _ _ _ _.
Arguments r_unread {g s} _ _ _.
Arguments r_edges {g s} _ _ _.
Arguments r_data {g s} _ _ _.
Arguments r_alloc {g s} _.

Lemma present_true g v : present g v = true <-> tag g v <> 0.
Proof. unfold present. destruct (Nat.eqb_spec (tag g v) 0); cbn; split; congruence. Qed.

Lemma present_false g v : present g v = false <-> tag g v = 0.
Proof. unfold present. destruct (Nat.eqb_spec (tag g v) 0); cbn; split; congruence. Qed.

Lemma R_init cap : R (op_empty cap) sinit.
Proof.
  split; cbn [sinit s_bound s_present s_grp s_unread s_edges s_data s_alloc s_fresh];
    try discriminate; try (intros; discriminate).
  - lia.
  - intros v. unfold present. rewrite tag_empty. reflexivity.
  - reflexivity.
Qed.

(** a present vertex with a group name carries a tag >= 2 *)
Lemma grouped_tag n g s v k :
  Inv n g -> R g s -> s_present s v = true -> s_grp s v = Some k -> 2 <= tag g v /\ tag g v < 16.
Proof.
  intros HI HR Hp Hk. pose proof (i_tag HI v) as Lt.
  assert (N0 : tag g v <> 0) by (apply present_true; rewrite <- (r_pres HR); exact Hp).
  assert (N1 : tag g v <> 1).
  { intros E. apply (r_ungr HR v Hp) in E. congruence. }
  lia.
Qed.

(** ** the two directions between abstract groups and member lists *)

Lemma in_group_spec s k w :
  in_group s k w = true <-> s_present s w = true /\ s_grp s w = Some k.
Proof.
  unfold in_group. destruct (s_present s w); cbn [andb]; [|split; [discriminate|intros [H _]; discriminate]].
  destruct (s_grp s w) as [k'|]; [|split; [discriminate|intros [_ H]; discriminate]].
  destruct (Nat.eqb_spec k' k) as [->|Hne]; split; auto; try discriminate.
  intros [_ H]. congruence.
Qed.

Lemma group_members_spec s k w :
  In w (group_members s k) <-> w < s_bound s /\ s_present s w = true /\ s_grp s w = Some k.
Proof.
  unfold group_members, ids, iota. rewrite filter_In, in_seq, in_group_spec. split.
  - intros [H1 H2]. split; [lia|exact H2].
  - intros [H1 H2]. split; [lia|exact H2].
Qed.

Lemma group_elems n g s v k :
  Inv n g -> R g s -> s_present s v = true -> s_grp s v = Some k ->
  forall w, In w (group_members s k) <-> In w (members g (tag g v)).
Proof.
  intros HI HR Hp Hk w. destruct (grouped_tag n g s v k HI HR Hp Hk) as [T1 T2].
  assert (Hnn : s_grp s v <> None) by congruence.
  rewrite group_members_spec, (i_mem HI (tag g v) w T1 T2). split.
  - intros (_ & Hpw & Hkw). symmetry. apply (r_grp HR v w Hp Hpw Hnn). congruence.
  - intros Ht.
    assert (Hpw : s_present s w = true).
    { rewrite (r_pres HR). apply present_true. lia. }
    split; [apply (r_inb HR); exact Hpw|]. split; [exact Hpw|].
    rewrite <- Hk. symmetry. apply (r_grp HR v w Hp Hpw Hnn). congruence.
Qed.

Lemma group_size n g s v k :
  Inv n g -> R g s -> s_present s v = true -> s_grp s v = Some k ->
  length (members g (tag g v)) <= length (group_members s k).
Proof.
  intros HI HR Hp Hk. destruct (grouped_tag n g s v k HI HR Hp Hk) as [T1 T2].
  apply NoDup_incl_length; [apply (i_nodup HI); assumption|].
  intros w Hw. apply (group_elems n g s v k HI HR Hp Hk). exact Hw.
Qed.

Lemma in_group_mem n g s v k :
  Inv n g -> R g s -> s_present s v = true -> s_grp s v = Some k ->
  forall w, in_group s k w = mem w (members g (tag g v)).
Proof.
  intros HI HR Hp Hk w.
  destruct (in_group s k w) eqn:E1; destruct (mem w (members g (tag g v))) eqn:E2; auto.
  - exfalso. apply mem_false in E2. apply E2. apply (group_elems n g s v k HI HR Hp Hk).
    apply in_group_spec in E1. apply group_members_spec. destruct E1 as [A B].
    split; [apply (r_inb HR); exact A|]. split; assumption.
  - exfalso. apply mem_In in E2. apply (group_elems n g s v k HI HR Hp Hk) in E2.
    apply group_members_spec in E2. destruct E2 as (_ & A & B).
    assert (in_group s k w = true) by (apply in_group_spec; split; assumption). congruence.
Qed.

(** ** pigeonhole: fewer than 14 abstract groups alive leaves a free slot *)

Lemma alive_in s k :
  In k (alive_groups s) <-> exists w, w < s_bound s /\ s_present s w = true /\ s_grp s w = Some k.
Proof.
  unfold alive_groups. rewrite nodup_In, in_concat. split.
  - intros (l & Hl & Hk). apply in_map_iff in Hl as (w & <- & Hw).
    unfold ids, iota in Hw. apply in_seq in Hw.
    destruct (s_present s w) eqn:P; [|destruct Hk].
    destruct (s_grp s w) as [k'|] eqn:G; [|destruct Hk].
    destruct Hk as [<-|[]]. exists w. repeat split; auto; lia.
  - intros (w & H1 & H2 & H3). exists [k]. split; [|left; reflexivity].
    apply in_map_iff. exists w. rewrite H2, H3. split; [reflexivity|].
    unfold ids, iota. apply in_seq. lia.
Qed.

Lemma NoDup_map_inj {A B} (f : A -> B) (l : list A) :
  NoDup l -> (forall x y, In x l -> In y l -> f x = f y -> x = y) -> NoDup (map f l).
Proof.
  induction l as [|a t IH]; intros Hnd Hinj; cbn [map]; [constructor|].
  inversion Hnd as [|? ? Ha Ht]; subst. constructor.
  - intros H. apply in_map_iff in H as (y & Hy & Hin).
    assert (y = a) by (apply Hinj; [right; exact Hin|left; reflexivity|exact Hy]). subst. contradiction.
  - apply IH; [exact Ht|]. intros x y Hx Hy. apply Hinj; right; assumption.
Qed.

Lemma free_slot n g s :
  Inv n g -> R g s -> length (alive_groups s) < 14 -> exists b, first_empty g = Some b.
Proof.
  intros HI HR Hlt. destruct (first_empty g) as [b|] eqn:F; [eauto|]. exfalso.
  assert (Hne : forall b, b < 16 -> members g b <> []).
  { intros b Hb E. unfold first_empty in F.
    pose proof (@find_index_none _ isnil (g_branches g) (@nil nat) F b) as Q.
    fold (nb g) in Q. rewrite (i_nb HI) in Q. specialize (Q Hb).
    fold (members g b) in Q. rewrite E in Q. discriminate. }
  set (rep := fun b => hd 0 (members g b)).
  set (name := fun b => match s_grp s (rep b) with Some k => k | None => 0 end).
  assert (Hrep : forall b, 2 <= b -> b < 16 ->
                 tag g (rep b) = b /\ s_present s (rep b) = true /\ s_grp s (rep b) = Some (name b)).
  { intros b H1 H2. unfold name, rep.
    destruct (members g b) as [|x t] eqn:E; [exfalso; apply (Hne b H2 E)|]. cbn [hd].
    assert (Tx : tag g x = b) by (apply (i_mem HI b x H1 H2); rewrite E; left; reflexivity).
    assert (Px : s_present s x = true) by (rewrite (r_pres HR); apply present_true; lia).
    split; [exact Tx|]. split; [exact Px|].
    destruct (s_grp s x) as [k|] eqn:G; [reflexivity|].
    apply (r_ungr HR x Px) in G. lia. }
  assert (Hnd : NoDup (map name (seq 2 14))).
  { apply NoDup_map_inj; [apply seq_NoDup|].
    intros x y Hx Hy E. apply in_seq in Hx, Hy.
    destruct (Hrep x) as (T1 & P1 & G1); try lia. destruct (Hrep y) as (T2 & P2 & G2); try lia.
    rewrite <- T1, <- T2. apply (r_grp HR (rep x) (rep y) P1 P2); congruence. }
  assert (Hincl : incl (map name (seq 2 14)) (alive_groups s)).
  { intros k Hk. apply in_map_iff in Hk as (b & <- & Hb). apply in_seq in Hb.
    destruct (Hrep b) as (T1 & P1 & G1); try lia.
    apply alive_in. exists (rep b). split; [apply (r_inb HR); exact P1|]. split; assumption. }
  pose proof (NoDup_incl_length Hnd Hincl) as L. rewrite map_length, seq_length in L. lia.
Qed.

(** ** the preconditions on the reference state imply the concrete ones *)

Lemma has_label_get e a : has_label e a = true <-> mm_get e a <> None.
Proof. unfold has_label. destruct (mm_get e a); split; congruence. Qed.

Lemma pre_cpre n g s o :
  Inv n g -> R g s -> pre n (cap_of g) s o -> cpre n g o.
Proof.
  intros HI HR. destruct o as [v|v1 v2 a|v d|v| |v a|v|]; cbn [pre cpre]; auto.
  - intros (P1 & P2 & Hne & Hroom & Hgrp).
    assert (T1 : tag g v1 <> 0) by (apply present_true; rewrite <- (r_pres HR); exact P1).
    assert (T2 : tag g v2 <> 0) by (apply present_true; rewrite <- (r_pres HR); exact P2).
    split; [exact T1|]. split; [exact T2|]. split; [exact Hne|]. split.
    { unfold room. rewrite <- (r_edges HR v1 P1). destruct Hroom as [H|H]; [left; apply has_label_get; exact H|right; exact H]. }
    split; [|split].
    + intros E1 E2. apply (r_ungr HR v1 P1) in E1. apply (r_ungr HR v2 P2) in E2.
      rewrite E1, E2 in Hgrp. apply (free_slot n g s HI HR Hgrp).
    + intros E1 N2. apply (r_ungr HR v1 P1) in E1. rewrite E1 in Hgrp.
      destruct (s_grp s v2) as [k|] eqn:G2.
      * pose proof (group_size n g s v2 k HI HR P2 G2). lia.
      * exfalso. apply N2. apply (r_ungr HR v2 P2). exact G2.
    + intros N1 E2. apply (r_ungr HR v2 P2) in E2. rewrite E2 in Hgrp.
      destruct (s_grp s v1) as [k|] eqn:G1.
      * pose proof (group_size n g s v1 k HI HR P1 G1). lia.
      * exfalso. apply N1. apply (r_ungr HR v1 P1). exact G1.
  - intros P. apply present_true; rewrite <- (r_pres HR); exact P.
  - intros P. apply present_true; rewrite <- (r_pres HR); exact P.
  - intros (id & H1 & H2 & H3). exists id. rewrite <- (r_alloc HR). split; [exact H1|]. split; [exact H2|].
    apply present_false. rewrite <- (r_pres HR). exact H3.
  - intros P. apply present_true; rewrite <- (r_pres HR); exact P.
  - intros P. apply present_true; rewrite <- (r_pres HR); exact P.
Qed.

(** ** [R] only looks at the accessors *)

Lemma R_ext g g' s :
  R g s -> cap_of g' = cap_of g -> g_next g' = g_next g ->
  (forall w, tag g' w = tag g w) -> (forall w, prs g' w = prs g w) ->
  (forall w, dat g' w = dat g w) -> (forall w, edg g' w = edg g w) ->
  R g' s.
Proof.
  intros HR C X T P D E. destruct HR as [B Pr Ib U G F Un Ed Da Al].
  split; auto.
  - congruence.
  - intros v. rewrite Pr. unfold present. rewrite T. reflexivity.
  - intros v Hv. rewrite T. apply U; exact Hv.
  - intros v w Hv Hw Hn. rewrite !T. apply G; assumption.
  - intros v Hv. rewrite (Un v Hv). symmetry. apply is_stored_prs. apply P.
  - intros v Hv. rewrite E. apply Ed; exact Hv.
  - intros v Hv. rewrite (Da v Hv). unfold has_data. rewrite P, D. reflexivity.
  - congruence.
Qed.

Definition sim_goal (n : nat) (g : sodg) (s : spec) (o : op) : Prop :=
  exists g', step n g o = Ok (g', snd (sstep s o)) /\ Inv n g' /\ R g' (fst (sstep s o)).

Ltac split_eq a b :=
  let H := fresh "Hne" in
  destruct (Nat.eq_dec a b) as [->|H];
  [ rewrite ?Nat.eqb_refl
  | rewrite ?(proj2 (Nat.eqb_neq a b) H), ?(proj2 (Nat.eqb_neq b a) (not_eq_sym H)) ].

(** ** add *)

Lemma sim_add n g s v :
  Inv n g -> R g s -> v < cap_of g -> sim_goal n g s (OAdd v).
Proof.
  intros HI HR Hv. unfold sim_goal. cbn [step sstep].
  destruct (add_effect g v Hv) as (g' & A & T & P & D & E & M & S & X).
  destruct (inv_add n g v HI Hv) as (g2 & A2 & I2). rewrite A in A2. injection A2 as <-.
  exists g'. rewrite A. cbn [obind].
  destruct (s_present s v) eqn:Pv; cbn [fst snd].
  - (* present: nothing changes *)
    assert (Tv : (tag g v =? 0) = false).
    { apply Nat.eqb_neq. apply present_true. rewrite <- (r_pres HR). exact Pv. }
    split; [reflexivity|]. split; [exact I2|].
    destruct X as [X1 X2 X3 X4].
    apply (R_ext g g' s HR X1 X4); intros w.
    + rewrite T, Tv, andb_false_r. reflexivity.
    + rewrite P, Tv, andb_false_r. reflexivity.
    + rewrite D, Tv, andb_false_r. reflexivity.
    + rewrite E, Tv, andb_false_r. reflexivity.
  - assert (Tv : (tag g v =? 0) = true).
    { apply Nat.eqb_eq. apply present_false. rewrite <- (r_pres HR). exact Pv. }
    split; [reflexivity|]. split; [exact I2|].
    destruct X as [X1 X2 X3 X4]. destruct HR as [B Pr Ib U G F Un Ed Da Al].
    assert (Tw : forall w, tag g' w = if w =? v then 1 else tag g w).
    { intros w. rewrite T, Tv, andb_true_r. reflexivity. }
    assert (Pw : forall w, prs g' w = if w =? v then PEmpty else prs g w).
    { intros w. rewrite P, Tv, andb_true_r. reflexivity. }
    split; cbn [s_bound s_present s_grp s_unread s_edges s_data s_alloc s_fresh].
    + rewrite X1. lia.
    + intros w. unfold present, fupd. rewrite Tw. split_eq w v; [reflexivity|apply Pr].
    + intros w. unfold fupd. split_eq w v; [lia|]. intros H. apply Ib in H. lia.
    + intros w. unfold fupd. rewrite Tw. split_eq w v; [tauto|apply U].
    + intros w1 w2. unfold fupd. rewrite !Tw. split_eq w1 v; [congruence|].
      split_eq w2 v; [|apply G].
      intros H1 _ H3.
      assert (tag g w1 <> 1) by (intros Q; apply H3; apply (U w1 H1); exact Q).
      split; [congruence|lia].
    + intros w k. unfold fupd. split_eq w v; [congruence|apply F].
    + intros w. unfold is_stored, fupd. rewrite Pw. split_eq w v; [reflexivity|]. intros H. apply (Un w H).
    + intros w. unfold fupd. rewrite E, Tv, andb_true_r. split_eq w v; [reflexivity|apply Ed].
    + intros w. unfold has_data, fupd. rewrite Pw, D, Tv, andb_true_r. split_eq w v; [reflexivity|apply Da].
    + congruence.
Qed.

(** ** bind *)

Lemma R_bind_frame g g' s v1 v2 a grp' fresh' :
  R g s -> s_present s v1 = true -> same_except_vertices g g' ->
  (forall w, present g' w = present g w) ->
  (forall w, prs g' w = prs g w) -> (forall w, dat g' w = dat g w) ->
  (forall w, edg g' w = if w =? v1 then spec_insert (edg g v1) a v2 else edg g w) ->
  (forall v, s_present s v = true -> (grp' v = None <-> tag g' v = 1)) ->
  (forall v w, s_present s v = true -> s_present s w = true -> grp' v <> None ->
               (grp' v = grp' w <-> tag g' v = tag g' w)) ->
  (forall v k, s_present s v = true -> grp' v = Some k -> k < fresh') ->
  R g' (mkS (s_bound s) (s_present s) grp' (s_unread s)
            (fupd (s_edges s) v1 (spec_insert (s_edges s v1) a v2)) (s_data s) (s_alloc s) fresh').
Proof.
  intros HR P1 [X1 X2 X3 X4] Pr' P D E U' G' F'. destruct HR as [B Pr Ib U G F Un Ed Da Al].
  split; cbn [s_bound s_present s_grp s_unread s_edges s_data s_alloc s_fresh]; auto.
  - congruence.
  - intros w. rewrite Pr'. apply Pr.
  - intros w Hw. rewrite (Un w Hw). symmetry. apply is_stored_prs. apply P.
  - intros w Hw. unfold fupd. rewrite E. rewrite (Ed v1 P1).
    rewrite (Nat.eqb_sym v1 w). destruct (w =? v1); [reflexivity|apply Ed; exact Hw].
  - intros w Hw. rewrite (Da w Hw). unfold has_data. rewrite P, D. reflexivity.
  - congruence.
Qed.

Lemma present_same_tag g g' :
  (forall w, tag g' w = 0 <-> tag g w = 0) -> forall w, present g' w = present g w.
Proof.
  intros H w. unfold present.
  destruct (Nat.eqb_spec (tag g' w) 0) as [E|E]; destruct (Nat.eqb_spec (tag g w) 0) as [E2|E2]; auto.
  - apply H in E. contradiction.
  - apply H in E2. contradiction.
Qed.

Lemma sim_bind n g s v1 v2 a :
  Inv n g -> R g s -> pre n (cap_of g) s (OBind v1 v2 a) -> sim_goal n g s (OBind v1 v2 a).
Proof.
  intros HI HR Hpre. pose proof (pre_cpre n g s _ HI HR Hpre) as Hc.
  destruct Hpre as (P1 & P2 & Hne & _ & _).
  destruct Hc as (T1 & T2 & _ & Hr & Huu & Hug & Hgu).
  pose proof (tag_nonzero_lt g v1 T1) as L1. pose proof (tag_nonzero_lt g v2 T2) as L2.
  pose proof (i_nb HI) as Hnb. pose proof (i_ns HI) as Hns.
  destruct (inv_bind n g v1 v2 a HI (conj T1 (conj T2 (conj Hne (conj Hr (conj Huu (conj Hug Hgu)))))))
    as (g2 & A2 & I2).
  unfold sim_goal. cbn [step sstep]. rewrite A2. cbn [obind]. exists g2.
  pose proof HR as HR0. destruct HR0 as [B Pr Ib U G F Un Ed Da Al].
  destruct (Nat.eq_dec (tag g v1) 1) as [E1|N1]; destruct (Nat.eq_dec (tag g v2) 1) as [E2|N2].
  - (* both ungrouped *)
    assert (G1 : s_grp s v1 = None) by (apply (U v1 P1); exact E1).
    assert (G2 : s_grp s v2 = None) by (apply (U v2 P2); exact E2).
    rewrite G1, G2. cbn [fst snd]. split; [reflexivity|]. split; [exact I2|].
    destruct (Huu E1 E2) as (b & Hf).
    destruct (first_empty_group n g b HI Hf) as (Hb1 & Hb2 & Hmb).
    destruct (bind_uu n g v1 v2 a b L1 L2 Hnb Hns E1 E2 Hr Hf) as (g' & A & T & P & D & E & M & S & X).
    rewrite A in A2. injection A2 as <-.
    assert (Hnb' : forall w, tag g w <> b).
    { intros w Hw. apply (i_mem HI b w Hb1 Hb2) in Hw. rewrite Hmb in Hw. destruct Hw. }
    apply (R_bind_frame g g' s v1 v2 a _ _ HR P1 X); auto.
    + apply present_same_tag. intros w. rewrite T.
      destruct (Nat.eqb_spec w v1) as [->|]; cbn [orb]; [lia|].
      destruct (Nat.eqb_spec w v2) as [->|]; [lia|tauto].
    + intros w Hw. unfold fupd. rewrite T.
      split_eq w v2; [rewrite orb_true_r; split; [discriminate|lia]|].
      split_eq w v1; cbn [orb]; [split; [discriminate|lia]|apply U; exact Hw].
    + intros w1 w2 Hw1 Hw2. unfold fupd. rewrite !T.
      assert (Q : forall w, s_present s w = true -> s_grp s w <> Some (s_fresh s)).
      { intros w Hw Hk. apply (F w _ Hw) in Hk. lia. }
      split_eq w1 v2; [rewrite orb_true_r|split_eq w1 v1; cbn [orb]].
      * intros _. split_eq w2 v2; [rewrite orb_true_r; tauto|].
        split_eq w2 v1; cbn [orb]; [tauto|].
        split; [intros K; symmetry in K; apply Q in K; tauto|intros K; symmetry in K; apply Hnb' in K; tauto].
      * intros _. split_eq w2 v2; [rewrite orb_true_r; tauto|].
        split_eq w2 v1; cbn [orb]; [tauto|].
        split; [intros K; symmetry in K; apply Q in K; tauto|intros K; symmetry in K; apply Hnb' in K; tauto].
      * intros Hn. split_eq w2 v2; [rewrite orb_true_r|split_eq w2 v1; cbn [orb]].
        -- split; [intros K; apply Q in K; tauto|intros K; apply Hnb' in K; tauto].
        -- split; [intros K; apply Q in K; tauto|intros K; apply Hnb' in K; tauto].
        -- apply G; assumption.
    + intros w k Hw. unfold fupd. split_eq w v2; [intros K; injection K as <-; lia|].
      split_eq w v1; [intros K; injection K as <-; lia|]. intros K. apply (F w k Hw) in K. lia.
  - (* v1 ungrouped joins the group of v2 *)
    assert (G1 : s_grp s v1 = None) by (apply (U v1 P1); exact E1).
    destruct (s_grp s v2) as [k2|] eqn:G2; [|exfalso; apply N2; apply (U v2 P2); exact G2].
    rewrite G1. cbn [fst snd]. split; [reflexivity|]. split; [exact I2|].
    pose proof (i_tag HI v2) as Lt.
    destruct (bind_ug n g v1 v2 a L1 L2 Hnb Hns E1 N2 Lt Hr (Hug E1 N2)) as (g' & A & T & P & D & E & M & S & X).
    rewrite A in A2. injection A2 as <-.
    assert (Gn : s_grp s v2 <> None) by congruence.
    apply (R_bind_frame g g' s v1 v2 a _ _ HR P1 X); auto.
    + apply present_same_tag. intros w. rewrite T.
      destruct (Nat.eqb_spec w v1) as [->|]; [lia|tauto].
    + intros w Hw. unfold fupd. rewrite T. split_eq w v1; [split; [discriminate|lia]|apply U; exact Hw].
    + intros w1 w2 Hw1 Hw2. unfold fupd. rewrite !T. split_eq w1 v1.
      * intros _. split_eq w2 v1; [tauto|]. rewrite <- G2. apply G; assumption.
      * intros Hn. split_eq w2 v1; [|apply G; assumption].
        rewrite <- G2. apply G; assumption.
    + intros w k Hw. unfold fupd. split_eq w v1; [|apply F; exact Hw].
      intros K. injection K as <-. apply (F v2 k2 P2 G2).
  - (* v2 ungrouped joins the group of v1 *)
    assert (G2 : s_grp s v2 = None) by (apply (U v2 P2); exact E2).
    destruct (s_grp s v1) as [k1|] eqn:G1; [|exfalso; apply N1; apply (U v1 P1); exact G1].
    rewrite G2. cbn [fst snd]. split; [reflexivity|]. split; [exact I2|].
    pose proof (i_tag HI v1) as Lt.
    destruct (bind_gu n g v1 v2 a L1 L2 Hnb Hns N1 E2 Lt Hr (Hgu N1 E2)) as (g' & A & T & P & D & E & M & S & X).
    rewrite A in A2. injection A2 as <-.
    assert (Gn : s_grp s v1 <> None) by congruence.
    apply (R_bind_frame g g' s v1 v2 a _ _ HR P1 X); auto.
    + apply present_same_tag. intros w. rewrite T.
      destruct (Nat.eqb_spec w v2) as [->|]; [lia|tauto].
    + intros w Hw. unfold fupd. rewrite T. split_eq w v2; [split; [discriminate|lia]|apply U; exact Hw].
    + intros w1 w2 Hw1 Hw2. unfold fupd. rewrite !T. split_eq w1 v2.
      * intros _. split_eq w2 v2; [tauto|]. rewrite <- G1. apply G; assumption.
      * intros Hn. split_eq w2 v2; [|apply G; assumption].
        rewrite <- G1. apply G; assumption.
    + intros w k Hw. unfold fupd. split_eq w v2; [|apply F; exact Hw].
      intros K. injection K as <-. apply (F v1 k1 P1 G1).
  - (* both grouped: no group changes *)
    destruct (s_grp s v1) as [k1|] eqn:G1; [|exfalso; apply N1; apply (U v1 P1); exact G1].
    destruct (s_grp s v2) as [k2|] eqn:G2; [|exfalso; apply N2; apply (U v2 P2); exact G2].
    cbn [fst snd]. split; [reflexivity|]. split; [exact I2|].
    destruct (bind_gg n g v1 v2 a L1 L2 N1 N2 Hr) as (g' & A & T & P & D & E & M & S & X).
    rewrite A in A2. injection A2 as <-.
    apply (R_bind_frame g g' s v1 v2 a _ _ HR P1 X); auto.
    + apply present_same_tag. intros w. rewrite T. tauto.
    + intros w Hw. rewrite T. apply U; exact Hw.
    + intros w1 w2 Hw1 Hw2. rewrite !T. apply G; assumption.
Qed.

(** ** put *)

Lemma sim_put n g s v d :
  Inv n g -> R g s -> s_present s v = true -> sim_goal n g s (OPut v d).
Proof.
  intros HI HR Pv.
  assert (Tv : tag g v <> 0) by (apply present_true; rewrite <- (r_pres HR); exact Pv).
  pose proof (tag_nonzero_lt g v Tv) as Lv. pose proof (i_tag HI v) as Lt.
  destruct (inv_put n g v d HI Tv) as (g2 & A2 & I2).
  destruct (put_effect g v d Lv) as (g' & A & T & P & D & E & M & S & X).
  { rewrite (i_nb HI); exact Lt. } { rewrite (i_ns HI); exact Lt. }
  rewrite A in A2. injection A2 as <-.
  unfold sim_goal. cbn [step sstep fst snd]. rewrite A. cbn [obind]. exists g'.
  split; [reflexivity|]. split; [exact I2|].
  destruct X as [X1 X2 X3 X4]. destruct HR as [B Pr Ib U G F Un Ed Da Al].
  split; cbn [s_bound s_present s_grp s_unread s_edges s_data s_alloc s_fresh]; auto.
  - congruence.
  - intros w. unfold present. rewrite T. apply Pr.
  - intros w Hw. rewrite T. apply U; exact Hw.
  - intros w1 w2 H1 H2 H3. rewrite !T. apply G; assumption.
  - intros w Hw. unfold fupd, is_stored. rewrite P. split_eq w v; [reflexivity|apply (Un w Hw)].
  - intros w Hw. rewrite E. apply Ed; exact Hw.
  - intros w Hw. unfold fupd, has_data. rewrite P, D. split_eq w v; [reflexivity|apply (Da w Hw)].
  - congruence.
Qed.

(** ** data *)

(** the group of [v] dies at this read iff no other member holds unread data *)
Lemma dies_iff n g s v k :
  Inv n g -> R g s -> s_present s v = true -> s_grp s v = Some k -> prs g v = PStored ->
  (store g (tag g v) = 1 <-> existsb (fupd (s_unread s) v false) (group_members s k) = false).
Proof.
  intros HI HR Pv Gv Sv. destruct (grouped_tag n g s v k HI HR Pv Gv) as [T1 T2].
  assert (Hin : In v (members g (tag g v))) by (apply (i_mem HI); auto).
  assert (Tv : tag g v <> 0) by lia. pose proof (tag_nonzero_lt g v Tv) as Lv.
  set (g1 := set_prs g v PTaken).
  assert (Q : forall w, w <> v -> is_stored g1 w = is_stored g w).
  { intros w Hw. apply is_stored_prs. unfold g1. sodg_rw. apply Nat.eqb_neq in Hw.
    rewrite Nat.eqb_sym, Hw. reflexivity. }
  assert (Qv : is_stored g1 v = false).
  { unfold is_stored, g1. sodg_rw. rewrite Nat.eqb_refl. apply Nat.ltb_lt in Lv. rewrite Lv. reflexivity. }
  assert (Sv' : is_stored g v = true) by (unfold is_stored; rewrite Sv; reflexivity).
  pose proof (nstored_flip_off g g1 (members g (tag g v)) v (i_nodup HI _ T1 T2) Hin Sv' Qv Q) as C.
  rewrite (i_cnt HI _ T1 T2), C.
  assert (Z : nstored g1 (members g (tag g v)) + 1 = 1 <-> nstored g1 (members g (tag g v)) = 0) by lia.
  rewrite Z, nstored_zero. clear Z C.
  split.
  - intros H. destruct (existsb _ _) eqn:Ex; [|reflexivity]. exfalso.
    apply existsb_exists in Ex as (w & Hw & Uw).
    unfold fupd in Uw. destruct (Nat.eqb_spec v w) as [->|Hne]; [discriminate|].
    pose proof Hw as Hw'. apply group_members_spec in Hw' as (_ & Pw & _).
    apply (group_elems n g s v k HI HR Pv Gv) in Hw.
    specialize (H w Hw). rewrite Q in H by congruence.
    rewrite <- (r_unread HR w Pw) in H. congruence.
  - intros H w Hw. destruct (Nat.eq_dec w v) as [->|Hne]; [exact Qv|]. rewrite Q by exact Hne.
    apply (group_elems n g s v k HI HR Pv Gv) in Hw.
    pose proof Hw as Hw'. apply group_members_spec in Hw' as (_ & Pw & _).
    rewrite <- (r_unread HR w Pw).
    destruct (s_unread s w) eqn:Uw; [|reflexivity]. exfalso.
    assert (existsb (fupd (s_unread s) v false) (group_members s k) = true).
    { apply existsb_exists. exists w. split; [exact Hw|]. unfold fupd.
      destruct (Nat.eqb_spec v w); [congruence|exact Uw]. }
    congruence.
Qed.

Lemma data_result g s v :
  R g s -> s_present s v = true ->
  s_data s v = match prs g v with PEmpty => None | _ => Some (dat g v) end.
Proof.
  intros HR Pv. rewrite (r_data HR v Pv). unfold has_data. destruct (prs g v); reflexivity.
Qed.

Lemma sim_data n g s v :
  Inv n g -> R g s -> s_present s v = true -> sim_goal n g s (OData v).
Proof.
  intros HI HR Pv.
  assert (Tv : tag g v <> 0) by (apply present_true; rewrite <- (r_pres HR); exact Pv).
  pose proof (tag_nonzero_lt g v Tv) as Lv. pose proof (i_tag HI v) as Lt.
  destruct (inv_data n g v HI Tv) as (g2 & r2 & A2 & I2).
  unfold sim_goal. cbn [step sstep]. rewrite A2. cbn [obind fst snd].
  pose proof (r_unread HR v Pv) as Uv. pose proof (data_result g s v HR Pv) as Dv.
  unfold is_stored in Uv.
  destruct (prs g v) eqn:Sv; cbn [pers_eqb] in Uv; rewrite Uv.
  - (* no datum *)
    rewrite (data_empty g v Lv Sv) in A2. injection A2 as <- <-.
    exists g. cbn [fst snd]. rewrite Dv. split; [reflexivity|]. split; [exact I2|exact HR].
  - (* first read *)
    set (s1 := mkS (s_bound s) (s_present s) (s_grp s) (fupd (s_unread s) v false) (s_edges s)
                   (s_data s) (s_alloc s) (s_fresh s)).
    assert (R1 : forall g', cap_of g' = cap_of g -> g_next g' = g_next g ->
                 (forall w, tag g' w = tag g w) ->
                 (forall w, prs g' w = if w =? v then PTaken else prs g w) ->
                 (forall w, dat g' w = dat g w) -> (forall w, edg g' w = edg g w) -> R g' s1).
    { intros g' C X T P D E. destruct HR as [B Pr Ib U G F Un Ed Da Al].
      split; cbn [s1 s_bound s_present s_grp s_unread s_edges s_data s_alloc s_fresh]; auto.
      - congruence.
      - intros w. unfold present. rewrite T. apply Pr.
      - intros w Hw. rewrite T. apply U; exact Hw.
      - intros w1 w2 H1 H2 H3. rewrite !T. apply G; assumption.
      - intros w Hw. unfold fupd, is_stored. rewrite P. split_eq w v; [reflexivity|apply (Un w Hw)].
      - intros w Hw. rewrite E. apply Ed; exact Hw.
      - intros w Hw. unfold has_data. rewrite P, D. rewrite (Da w Hw). unfold has_data.
        split_eq w v; [rewrite Sv; reflexivity|reflexivity].
      - congruence. }
    destruct (s_grp s v) as [k|] eqn:Gv.
    + destruct (grouped_tag n g s v k HI HR Pv Gv) as [T1 T2].
      assert (N1 : tag g v <> 1) by lia.
      assert (Hnb : tag g v < nb g) by (rewrite (i_nb HI); exact Lt).
      assert (Hns : tag g v < ns g) by (rewrite (i_ns HI); exact Lt).
      pose proof (store_pos n g v HI T1 Sv) as Hs.
      pose proof (dies_iff n g s v k HI HR Pv Gv Sv) as Hd.
      destruct (existsb (fupd (s_unread s) v false) (group_members s k)) eqn:Ex.
      * (* the group lives on *)
        assert (S2 : store g (tag g v) <> 1) by (intros Q; apply Hd in Q; discriminate).
        rewrite (data_stored_keep g v Lv Sv N1 Hnb Hns) in A2 by lia. injection A2 as <- <-.
        eexists. cbn [fst snd]. rewrite Dv. split; [reflexivity|]. split; [exact I2|].
        apply R1; [sodg_rw; reflexivity|reflexivity|intros w; sodg_rw; reflexivity| |intros w; sodg_rw; reflexivity|intros w; sodg_rw; reflexivity].
        intros w. sodg_rw. apply Nat.ltb_lt in Lv. rewrite Lv, andb_true_r, Nat.eqb_sym. reflexivity.
      * (* the group dies *)
        assert (S1 : store g (tag g v) = 1) by (apply Hd; reflexivity).
        destruct (data_stored_last g v Lv Sv N1 Hnb Hns S1) as (g' & A & T & P & D & E & M & S & X).
        { intros m Hm. apply (i_mem HI) in Hm; auto. apply tag_nonzero_lt. lia. }
        rewrite A in A2. injection A2 as <- <-.
        exists g'. cbn [fst snd]. rewrite Dv. split; [reflexivity|]. split; [exact I2|].
        pose proof (in_group_mem n g s v k HI HR Pv Gv) as IG.
        destruct X as [X1 X2 X3 X4]. destruct HR as [B Pr Ib U G F Un Ed Da Al].
        split; cbn [s_bound s_present s_grp s_unread s_edges s_data s_alloc s_fresh]; auto.
        -- congruence.
        -- intros w. unfold present. rewrite T, IG.
           destruct (mem w (members g (tag g v))); [reflexivity|apply Pr].
        -- intros w. destruct (in_group s k w); [discriminate|apply Ib].
        -- intros w. rewrite T, IG. destruct (mem w (members g (tag g v))); [discriminate|apply U].
        -- intros w1 w2. rewrite !T, !IG.
           destruct (mem w1 (members g (tag g v))); [discriminate|].
           destruct (mem w2 (members g (tag g v))); [discriminate|]. apply G.
        -- intros w k'. destruct (in_group s k w); [discriminate|apply F].
        -- intros w. rewrite IG. destruct (mem w (members g (tag g v))); [discriminate|].
           intros Hw. unfold fupd, is_stored. rewrite P. split_eq w v; [reflexivity|apply (Un w Hw)].
        -- intros w. rewrite IG. destruct (mem w (members g (tag g v))); [discriminate|].
           intros Hw. rewrite E. apply Ed; exact Hw.
        -- intros w. rewrite IG. destruct (mem w (members g (tag g v))); [discriminate|].
           intros Hw. unfold has_data. rewrite P, D, (Da w Hw). unfold has_data.
           split_eq w v; [rewrite Sv; reflexivity|reflexivity].
        -- congruence.
    + (* ungrouped: never collected *)
      assert (E1 : tag g v = 1) by (apply (r_ungr HR v Pv); exact Gv).
      rewrite (data_stored_static g v Lv Sv E1) in A2. injection A2 as <- <-.
      eexists. cbn [fst snd]. rewrite Dv. split; [reflexivity|]. split; [exact I2|].
      apply R1; [sodg_rw; reflexivity|reflexivity|intros w; sodg_rw; reflexivity| |intros w; sodg_rw; reflexivity|intros w; sodg_rw; reflexivity].
      intros w. sodg_rw. apply Nat.ltb_lt in Lv. rewrite Lv, andb_true_r, Nat.eqb_sym. reflexivity.
  - (* repeated read *)
    rewrite (data_taken g v Lv Sv) in A2. injection A2 as <- <-.
    exists g. cbn [fst snd]. rewrite Dv. split; [reflexivity|]. split; [exact I2|exact HR].
Qed.

(** ** next_id *)

Lemma find_seq_first (p : nat -> bool) : forall len s id,
  s <= id -> id < s + len -> p id = true -> (forall w, s <= w -> w < id -> p w = false) ->
  find p (seq s len) = Some id.
Proof.
  induction len as [|len IH]; intros s id H1 H2 H3 H4; [lia|]. cbn [seq find].
  destruct (Nat.eq_dec s id) as [->|Hne].
  - rewrite H3. reflexivity.
  - rewrite (H4 s) by lia. apply IH; try lia; auto. intros w Hw1 Hw2. apply H4; lia.
Qed.

Lemma sim_next n g s :
  Inv n g -> R g s -> pre n (cap_of g) s ONext -> sim_goal n g s ONext.
Proof.
  intros HI HR Hpre. pose proof (pre_cpre n g s _ HI HR Hpre) as Hc.
  destruct (inv_next n g HI Hc) as (g2 & id2 & A2 & I2).
  destruct (next_id_effect g Hc) as (id & A & H1 & H2 & H3 & H4).
  rewrite A in A2. injection A2 as <- <-.
  unfold sim_goal. cbn [step sstep]. rewrite A. cbn [obind fst snd].
  assert (Fs : find (fun w => negb (s_present s w)) (seq (s_alloc s) (S (s_bound s))) = Some id).
  { rewrite (r_alloc HR). apply find_seq_first.
    - exact H1.
    - destruct (Nat.lt_ge_cases id (g_next g + S (s_bound s))) as [L|L]; [exact L|]. exfalso.
      (* the id [max (g_next g) (s_bound s)] is absent and smaller *)
      set (m := Nat.max (g_next g) (s_bound s)).
      assert (Pm : s_present s m = false).
      { destruct (s_present s m) eqn:Q; [|reflexivity]. apply (r_inb HR) in Q. unfold m in Q. lia. }
      rewrite (r_pres HR) in Pm. apply present_false in Pm.
      apply (H4 m); unfold m; try lia. exact Pm.
    - rewrite (r_pres HR). apply present_false in H3. rewrite H3. reflexivity.
    - intros w Hw1 Hw2. rewrite (r_pres HR).
      assert (Q : present g w = true) by (apply present_true; apply H4; assumption).
      rewrite Q. reflexivity. }
  rewrite Fs. cbn [fst snd]. eexists. split; [reflexivity|]. split; [exact I2|].
  destruct HR as [B Pr Ib U G F Un Ed Da Al].
  split; cbn [s_bound s_present s_grp s_unread s_edges s_data s_alloc s_fresh]; auto.
Qed.

(** ** observers *)


Lemma filter_none {A} (f : A -> bool) l : (forall x, In x l -> f x = false) -> filter f l = [].
Proof.
  induction l as [|x t IH]; intros H; cbn [filter]; [reflexivity|].
  rewrite (H x) by (left; reflexivity). apply IH. intros y Hy. apply H. right; exact Hy.
Qed.

Lemma filter_seq_cut (f : nat -> bool) b c :
  b <= c -> (forall w, b <= w -> f w = false) -> filter f (seq 0 c) = filter f (seq 0 b).
Proof.
  intros Hbc Hf. replace c with (b + (c - b)) by lia. rewrite seq_app, filter_app.
  rewrite (filter_none f (seq (0 + b) (c - b))); [apply app_nil_r|].
  intros x Hx. apply in_seq in Hx. apply Hf. lia.
Qed.

Lemma keys_agree g s : R g s -> s_keys s = op_keys g.
Proof.
  intros HR. unfold s_keys, op_keys, ids, iota.
  rewrite (filter_seq_cut (fun v => negb (tag g v =? 0)) (s_bound s) (cap_of g) (r_bound HR)).
  - apply filter_ext. intros w. apply (r_pres HR).
  - intros w Hw. change (present g w = false). rewrite <- (r_pres HR).
    destruct (s_present s w) eqn:Q; [|reflexivity]. apply (r_inb HR) in Q. lia.
Qed.

Lemma sim_kid n g s v a :
  Inv n g -> R g s -> s_present s v = true -> sim_goal n g s (OKid v a).
Proof.
  intros HI HR Pv.
  assert (Tv : tag g v <> 0) by (apply present_true; rewrite <- (r_pres HR); exact Pv).
  unfold sim_goal. cbn [step sstep fst snd]. unfold op_kid.
  rewrite chk_v_ok by (apply tag_nonzero_lt; exact Tv). cbn [obind].
  exists g. rewrite (r_edges HR v Pv). auto.
Qed.

Lemma sim_kids n g s v :
  Inv n g -> R g s -> s_present s v = true -> sim_goal n g s (OKids v).
Proof.
  intros HI HR Pv.
  assert (Tv : tag g v <> 0) by (apply present_true; rewrite <- (r_pres HR); exact Pv).
  unfold sim_goal. cbn [step sstep fst snd]. unfold op_kids.
  rewrite chk_v_ok by (apply tag_nonzero_lt; exact Tv). cbn [obind].
  exists g. rewrite (r_edges HR v Pv). auto.
Qed.

Lemma sim_keys n g s : Inv n g -> R g s -> sim_goal n g s OKeys.
Proof.
  intros HI HR. unfold sim_goal. cbn [step sstep fst snd].
  exists g. rewrite (keys_agree g s HR). auto.
Qed.

(** ** the simulation *)

Theorem sim_step n g s o :
  Inv n g -> R g s -> pre n (cap_of g) s o ->
  exists g', step n g o = Ok (g', snd (sstep s o)) /\ Inv n g' /\ R g' (fst (sstep s o)).
Proof.
  intros HI HR Hpre. destruct o as [v|v1 v2 a|v d|v| |v a|v|].
  - apply sim_add; assumption.
  - apply sim_bind; assumption.
  - apply sim_put; assumption.
  - apply sim_data; assumption.
  - apply sim_next; assumption.
  - apply sim_kid; assumption.
  - apply sim_kids; assumption.
  - apply sim_keys; assumption.
Qed.

