(** * TreeFacts: finite labelled trees and their embedding into a graph;
    resource predicates and summaries of the primitive calls used by the
    proof of C11 (MergeTreeFacts.v). *)

From Sodg Require Export MergeFacts.

(** ** trees *)

Inductive tree := Node (id : nat) (kids : list (label * tree)).

Definition root (T : tree) : nat := match T with Node i _ => i end.
Definition kids (T : tree) : list (label * tree) := match T with Node _ k => k end.

Fixpoint ids (T : tree) : list nat :=
  match T with
  | Node i ks =>
      i :: (fix go (l : list (label * tree)) : list nat :=
              match l with
              | [] => []
              | p :: r => match p with (_, t) => ids t ++ go r end
              end) ks
  end.

Fixpoint ids_kids (ks : list (label * tree)) : list nat :=
  match ks with
  | [] => []
  | p :: r => ids (snd p) ++ ids_kids r
  end.

Lemma ids_node i ks : ids (Node i ks) = i :: ids_kids ks.
Proof.
  cbn [ids]. f_equal. induction ks as [|[a t] r IH]; cbn [ids_kids snd]; [reflexivity|].
  rewrite IH. reflexivity.
Qed.

Fixpoint tsize (T : tree) : nat :=
  match T with
  | Node _ ks =>
      S ((fix go (l : list (label * tree)) : nat :=
            match l with
            | [] => 0
            | p :: r => match p with (_, t) => tsize t + go r end
            end) ks)
  end.

Fixpoint tsize_kids (ks : list (label * tree)) : nat :=
  match ks with
  | [] => 0
  | p :: r => tsize (snd p) + tsize_kids r
  end.

Lemma tsize_node i ks : tsize (Node i ks) = S (tsize_kids ks).
Proof.
  cbn [tsize]. f_equal. induction ks as [|[a t] r IH]; cbn [tsize_kids snd]; [reflexivity|].
  rewrite IH. reflexivity.
Qed.

Fixpoint maxdeg (T : tree) : nat :=
  match T with
  | Node _ ks =>
      Nat.max (length ks)
        ((fix go (l : list (label * tree)) : nat :=
            match l with
            | [] => 0
            | p :: r => match p with (_, t) => Nat.max (maxdeg t) (go r) end
            end) ks)
  end.

Fixpoint maxdeg_kids (ks : list (label * tree)) : nat :=
  match ks with
  | [] => 0
  | p :: r => Nat.max (maxdeg (snd p)) (maxdeg_kids r)
  end.

Lemma maxdeg_node i ks : maxdeg (Node i ks) = Nat.max (length ks) (maxdeg_kids ks).
Proof.
  cbn [maxdeg]. f_equal. induction ks as [|[a t] r IH]; cbn [maxdeg_kids snd]; [reflexivity|].
  rewrite IH. reflexivity.
Qed.

Lemma tree_ind2 (P : tree -> Prop) :
  (forall i ks, (forall a t, In (a, t) ks -> P t) -> P (Node i ks)) -> forall T, P T.
Proof.
  intros H. fix IH 1. intros [i ks]. apply H.
  induction ks as [|[b u] r IHr].
  - intros a t [].
  - intros a t [E|Hin].
    + injection E as _ <-. apply IH.
    + eapply IHr; eauto.
Qed.

Lemma tsize_pos T : 1 <= tsize T.
Proof. destruct T as [i ks]. rewrite tsize_node. lia. Qed.

Lemma ids_kids_in ks a t v : In (a, t) ks -> In v (ids t) -> In v (ids_kids ks).
Proof.
  induction ks as [|[b u] r IH]; cbn [ids_kids snd In]; [tauto|].
  intros [E|Hin] Hv; apply in_app_iff.
  - injection E as _ <-. left; exact Hv.
  - right. apply IH; assumption.
Qed.

Lemma ids_kids_inv ks v : In v (ids_kids ks) -> exists a t, In (a, t) ks /\ In v (ids t).
Proof.
  induction ks as [|[b u] r IH]; cbn [ids_kids snd]; [intros []|].
  intros H. apply in_app_iff in H as [H|H].
  - exists b, u. split; [left; reflexivity|exact H].
  - destruct (IH H) as (a & t & Hi & Hv). exists a, t. split; [right; exact Hi|exact Hv].
Qed.

Lemma root_in_ids T : In (root T) (ids T).
Proof. destruct T as [i ks]. rewrite ids_node. left; reflexivity. Qed.

Lemma tsize_kids_in ks a t : In (a, t) ks -> tsize t <= tsize_kids ks.
Proof.
  induction ks as [|[b u] r IH]; cbn [tsize_kids snd In]; [tauto|].
  intros [E|Hin]; [injection E as _ <-; lia|]. specialize (IH Hin). lia.
Qed.

Lemma maxdeg_kids_in ks a t : In (a, t) ks -> maxdeg t <= maxdeg_kids ks.
Proof.
  induction ks as [|[b u] r IH]; cbn [maxdeg_kids snd In]; [tauto|].
  intros [E|Hin]; [injection E as _ <-; lia|]. specialize (IH Hin). lia.
Qed.

Lemma ids_length T : length (ids T) = tsize T.
Proof.
  induction T as [i ks IH] using tree_ind2. rewrite ids_node, tsize_node. cbn [length]. f_equal.
  induction ks as [|[a t] r IHr]; cbn [ids_kids tsize_kids snd]; [reflexivity|].
  rewrite app_length, (IH a t) by (left; reflexivity). f_equal.
  apply IHr. intros b u Hin. apply (IH b u). right; exact Hin.
Qed.

(** ** lists without repetition *)

Lemma nodup_app_inv {A} (l1 l2 : list A) :
  NoDup (l1 ++ l2) -> NoDup l1 /\ NoDup l2 /\ forall x, In x l1 -> ~ In x l2.
Proof.
  induction l1 as [|a t IH]; cbn [app]; intros H.
  - split; [constructor|]. split; [exact H|]. intros x [].
  - inversion H as [|? ? Ha Ht]; subst. destruct (IH Ht) as (H1 & H2 & H3).
    split; [|split; [exact H2|]].
    + constructor; [|exact H1]. intros Hin. apply Ha. apply in_app_iff. left; exact Hin.
    + intros x [<-|Hx]; [|apply H3; exact Hx]. intros Hin. apply Ha. apply in_app_iff. right; exact Hin.
Qed.

Lemma ids_kids_nodup_in ks a t : NoDup (ids_kids ks) -> In (a, t) ks -> NoDup (ids t).
Proof.
  induction ks as [|[b u] r IH]; cbn [ids_kids snd In]; [tauto|].
  intros H [E|Hin]; apply nodup_app_inv in H as (H1 & H2 & _).
  - injection E as _ <-. exact H1.
  - apply IH; assumption.
Qed.

Lemma ids_kids_disjoint ks a u b w :
  NoDup (ids_kids ks) -> In (a, u) ks -> In (b, w) ks -> a <> b ->
  forall v, In v (ids u) -> ~ In v (ids w).
Proof.
  induction ks as [|[c x] r IH]; cbn [ids_kids snd In]; [tauto|].
  intros H Hu Hw Hne v Hv1 Hv2. apply nodup_app_inv in H as (H1 & H2 & H3).
  destruct Hu as [Eu|Hu]; destruct Hw as [Ew|Hw].
  - injection Eu as -> _. injection Ew as -> _. contradiction.
  - injection Eu as _ <-. apply (H3 v Hv1). eapply ids_kids_in; eauto.
  - injection Ew as _ <-. apply (H3 v Hv2). eapply ids_kids_in; eauto.
  - eapply IH; eauto.
Qed.

(** ** embedding of a tree into a graph *)

(** every node of the tree is a present vertex whose edges are, in order,
    the labelled kids of the node *)
Fixpoint emb (g : sodg) (T : tree) : Prop :=
  match T with
  | Node i ks =>
      tag g i <> 0
      /\ edg g i = map (fun p : label * tree => (fst p, root (snd p))) ks
      /\ (fix all (l : list (label * tree)) : Prop :=
            match l with
            | [] => True
            | p :: r => match p with (_, t) => emb g t /\ all r end
            end) ks
  end.

Definition kid_edges (ks : list (label * tree)) : edges :=
  map (fun p : label * tree => (fst p, root (snd p))) ks.

Lemma emb_node g i ks :
  emb g (Node i ks) <->
  tag g i <> 0 /\ edg g i = kid_edges ks /\ forall a t, In (a, t) ks -> emb g t.
Proof.
  cbn [emb]. fold (kid_edges ks).
  assert (Q : (fix all (l : list (label * tree)) : Prop :=
                 match l with
                 | [] => True
                 | p :: r => match p with (_, t) => emb g t /\ all r end
                 end) ks <-> forall a t, In (a, t) ks -> emb g t).
  { induction ks as [|[b u] r IH].
    - split; [intros _ a t []|auto].
    - rewrite IH. split.
      + intros [H1 H2] a t [E|Hin]; [injection E as _ <-; exact H1|eapply H2; eauto].
      + intros H. split; [apply (H b); left; reflexivity|]. intros a t Hin. apply (H a). right; exact Hin. }
  rewrite Q. tauto.
Qed.

(** a tree: embedded, and no vertex occurs twice *)
Definition embeds (g : sodg) (T : tree) : Prop := emb g T /\ NoDup (ids T).

Lemma emb_present g T : emb g T -> forall v, In v (ids T) -> tag g v <> 0.
Proof.
  induction T as [i ks IH] using tree_ind2. intros H v Hv.
  apply emb_node in H as (H1 & H2 & H3). rewrite ids_node in Hv. destruct Hv as [<-|Hv]; [exact H1|].
  apply ids_kids_inv in Hv as (a & t & Hin & Hv). eapply IH; eauto.
Qed.

Lemma emb_frame g g' T :
  emb g T -> (forall v, In v (ids T) -> tag g' v <> 0 /\ edg g' v = edg g v) -> emb g' T.
Proof.
  induction T as [i ks IH] using tree_ind2. intros H Hf.
  apply emb_node in H as (H1 & H2 & H3). apply emb_node.
  destruct (Hf i) as [F1 F2]; [rewrite ids_node; left; reflexivity|].
  split; [exact F1|]. split; [congruence|].
  intros a t Hin. eapply IH; eauto. intros v Hv. apply Hf. rewrite ids_node. right.
  eapply ids_kids_in; eauto.
Qed.

Lemma emb_deg g T : emb g T -> forall v, In v (ids T) -> length (edg g v) <= maxdeg T.
Proof.
  induction T as [i ks IH] using tree_ind2. intros H v Hv.
  apply emb_node in H as (H1 & H2 & H3). rewrite maxdeg_node. rewrite ids_node in Hv.
  destruct Hv as [<-|Hv].
  - rewrite H2. unfold kid_edges. rewrite map_length. lia.
  - apply ids_kids_inv in Hv as (a & t & Hin & Hv).
    pose proof (IH a t Hin (H3 a t Hin) v Hv). pose proof (maxdeg_kids_in ks a t Hin). lia.
Qed.

Lemma mm_get_in e a w : mm_get e a = Some w -> In (a, w) e.
Proof.
  induction e as [|[k x] t IH]; cbn [mm_get]; [discriminate|].
  destruct (label_eqb k a) eqn:E.
  - apply label_eqb_spec in E. subst k. intros H; injection H as <-. left; reflexivity.
  - intros H. right. apply IH; exact H.
Qed.

Lemma in_mm_get e a w : NoDup (map fst e) -> In (a, w) e -> mm_get e a = Some w.
Proof.
  induction e as [|[k x] t IH]; cbn [mm_get map fst In]; [tauto|].
  intros Hn [E|Hin].
  - injection E as -> ->. rewrite label_eqb_refl. reflexivity.
  - inversion Hn as [|? ? Hk Ht]; subst. destruct (label_eqb k a) eqn:E.
    + apply label_eqb_spec in E. subst k. exfalso. apply Hk.
      change a with (fst (a, w)). apply in_map. exact Hin.
    + apply IH; assumption.
Qed.

Lemma kid_edges_in ks a x : In (a, x) (kid_edges ks) <-> exists t, In (a, t) ks /\ root t = x.
Proof.
  unfold kid_edges. rewrite in_map_iff. split.
  - intros ([b t] & E & Hin). cbn [fst snd] in E. injection E as -> <-. eauto.
  - intros (t & Hin & <-). exists (a, t). split; [reflexivity|exact Hin].
Qed.

Lemma kid_edges_keys ks : map fst (kid_edges ks) = map fst ks.
Proof. unfold kid_edges. rewrite map_map. reflexivity. Qed.

Lemma mm_get_kid_edges ks a x : mm_get (kid_edges ks) a = Some x -> exists t, In (a, t) ks /\ root t = x.
Proof. intros H. apply kid_edges_in. apply mm_get_in. exact H. Qed.

(** reachability inside an embedded tree *)
Lemma emb_edge_in g T : emb g T -> forall u a w, In u (ids T) -> In (a, w) (edg g u) -> In w (ids T).
Proof.
  induction T as [i ks IH] using tree_ind2. intros H u a w Hu Hi.
  apply emb_node in H as (H1 & H2 & H3). rewrite ids_node in *. destruct Hu as [<-|Hu].
  - rewrite H2 in Hi. apply kid_edges_in in Hi as (t & Hin & <-). right.
    eapply ids_kids_in; eauto. apply root_in_ids.
  - apply ids_kids_inv in Hu as (b & t & Hin & Hu). right. eapply ids_kids_in; eauto.
Qed.

Lemma emb_reach_in g T u : emb g T -> reach ptrue g (root T) u -> In u (ids T).
Proof.
  intros H. apply (reach_in_closed_set ptrue g (root T) (fun x => In x (ids T))).
  - apply root_in_ids.
  - intros x a w Hx Hi _. eapply emb_edge_in; eauto.
Qed.

Lemma emb_in_reach g T : emb g T -> forall u, In u (ids T) -> reach ptrue g (root T) u.
Proof.
  induction T as [i ks IH] using tree_ind2. intros H u Hu.
  apply emb_node in H as (H1 & H2 & H3). rewrite ids_node in Hu. cbn [root].
  destruct Hu as [<-|Hu]; [apply reach_refl|].
  apply ids_kids_inv in Hu as (b & t & Hin & Hu).
  eapply reach_trans; [|eapply IH; eauto].
  eapply reach_edge; [|reflexivity]. rewrite H2. apply kid_edges_in. eauto.
Qed.

Lemma emb_hclosed g T : emb g T -> hclosed g (root T).
Proof.
  intros H. pose proof (emb_present g T H) as P. split.
  - apply tag_nonzero_lt. apply P. apply root_in_ids.
  - intros u Hu. pose proof (emb_reach_in g T u H Hu) as Hin. split; [apply P; exact Hin|].
    intros a w Hi. apply tag_nonzero_lt. apply P. eapply emb_edge_in; eauto.
Qed.

(** ** resources *)

(** at most [k] present vertices *)
Definition bound (g : sodg) (k : nat) : Prop :=
  exists L, length L <= k /\ forall v, tag g v <> 0 -> In v L.

(** at least [c] absent ids at or above the allocator position *)
Definition free (g : sodg) (c : nat) : Prop :=
  exists F, c <= length F /\ StronglySorted lt F
            /\ forall v, In v F -> g_next g <= v /\ v < cap_of g /\ tag g v = 0.

Lemma bound_le g k k' : bound g k -> k <= k' -> bound g k'.
Proof. intros (L & H1 & H2) Hle. exists L. split; [lia|exact H2]. Qed.

Lemma free_le g c c' : free g c -> c' <= c -> free g c'.
Proof. intros (F & H1 & H2) Hle. exists F. split; [lia|exact H2]. Qed.

Lemma bound_keys g : bound g (length (op_keys g)).
Proof.
  exists (op_keys g). split; [lia|]. intros v Hv. apply in_op_keys.
  split; [apply tag_nonzero_lt; exact Hv|exact Hv].
Qed.

Definition free_list (g : sodg) : list nat :=
  filter (fun v => (tag g v =? 0) && (g_next g <=? v)) (iota (cap_of g)).

Lemma free_free_list g : free g (length (free_list g)).
Proof.
  exists (free_list g). split; [lia|]. split.
  - apply ExportFacts.filter_ssorted. apply ExportFacts.seq_ssorted.
  - intros v Hv. apply filter_In in Hv as [H1 H2]. apply andb_true_iff in H2 as [H2 H3].
    apply Nat.eqb_eq in H2. apply Nat.leb_le in H3. unfold iota in H1. apply in_seq in H1.
    repeat split; try assumption; lia.
Qed.

Lemma bound_nodup g k L : bound g k -> NoDup L -> (forall v, In v L -> tag g v <> 0) -> length L <= k.
Proof.
  intros (B & H1 & H2) Hn Hp. eapply Nat.le_trans; [|exact H1].
  apply NoDup_incl_length; [exact Hn|]. intros v Hv. apply H2. apply Hp. exact Hv.
Qed.

(** with at most 15 present vertices, two ungrouped vertices find an empty group slot *)
Lemma first_empty_exists n g k v1 v2 :
  Inv n g -> bound g k -> k <= 15 -> tag g v1 = 1 -> tag g v2 = 1 -> v1 <> v2 ->
  exists b, first_empty g = Some b.
Proof.
  intros HI HB Hk T1 T2 Hne. destruct (first_empty g) as [b|] eqn:F; [eauto|exfalso].
  unfold first_empty in F. pose proof (find_index_none isnil (g_branches g) (@nil nat) F) as Q.
  fold (nb g) in Q. rewrite (i_nb HI) in Q.
  set (rep := fun b => hd 0 (members g b)).
  assert (R : forall b, 2 <= b -> b < 16 -> tag g (rep b) = b).
  { intros b H1 H2. apply (i_mem HI b (rep b) H1 H2). unfold rep.
    specialize (Q b H2). fold (members g b) in Q. destruct (members g b); [discriminate|left; reflexivity]. }
  set (reps := map rep (seq 2 14)).
  assert (Rt : map (tag g) reps = seq 2 14).
  { unfold reps. rewrite map_map. rewrite <- (map_id (seq 2 14)) at 2. apply map_ext_in.
    intros b Hb. apply in_seq in Hb. apply R; lia. }
  assert (Rn : NoDup reps).
  { apply (NoDup_map_inv (tag g)). rewrite Rt. apply seq_NoDup. }
  assert (Rin : forall v, In v reps -> 2 <= tag g v).
  { intros v Hv. assert (In (tag g v) (seq 2 14)) by (rewrite <- Rt; apply in_map; exact Hv).
    apply in_seq in H. lia. }
  assert (L : length (v1 :: v2 :: reps) <= k).
  { apply (bound_nodup g k); [exact HB| |].
    - constructor; [|constructor; [|exact Rn]].
      + intros [E|Hin]; [congruence|]. apply Rin in Hin. lia.
      + intros Hin. apply Rin in Hin. lia.
    - intros v [<-|[<-|Hv]]; try lia. apply Rin in Hv. lia. }
  cbn [length] in L. unfold reps in L. rewrite map_length, seq_length in L. lia.
Qed.

Lemma members_room n g k v1 v2 :
  Inv n g -> bound g k -> k <= 16 -> tag g v1 <> 1 -> tag g v1 <> 0 -> tag g v2 = 1 ->
  length (members g (tag g v1)) < 16.
Proof.
  intros HI HB Hk N1 Z1 T2. pose proof (i_tag HI v1) as Lt.
  assert (G : 2 <= tag g v1) by lia.
  assert (L : length (v2 :: members g (tag g v1)) <= k).
  { apply (bound_nodup g k); [exact HB| |].
    - constructor; [|apply (i_nodup HI); assumption].
      intros Hin. apply (i_mem HI _ _ G Lt) in Hin. lia.
    - intros v [<-|Hv]; [lia|]. apply (i_mem HI _ _ G Lt) in Hv. lia. }
  cbn [length] in L. lia.
Qed.

(** ** what merge does to the left graph, as a preorder *)

Record mono (s s' : sodg) : Prop := {
  mo_cap : cap_of s' = cap_of s;
  mo_next : g_next s <= g_next s';
  mo_tag : forall v, tag s v <> 0 -> tag s' v <> 0;
  mo_keep : forall v a w, tag s v <> 0 -> mm_get (edg s v) a = Some w -> mm_get (edg s' v) a = Some w;
  mo_old : forall v a x, tag s v <> 0 -> mm_get (edg s' v) a = Some x ->
                         mm_get (edg s v) a = Some x \/ tag s x = 0;
  mo_new : forall v a x, tag s v = 0 -> tag s' v <> 0 -> mm_get (edg s' v) a = Some x -> tag s x = 0
}.

Lemma mono_refl s : mono s s.
Proof. split; auto. intros; contradiction. Qed.

Lemma mono_trans a b c : mono a b -> mono b c -> mono a c.
Proof.
  intros [A1 A2 A3 A4 A5 A6] [B1 B2 B3 B4 B5 B6]. split.
  - congruence.
  - lia.
  - auto.
  - auto.
  - intros v l x Hv Hg. destruct (B5 v l x (A3 v Hv) Hg) as [H|H].
    + apply A5; assumption.
    + right. destruct (Nat.eq_dec (tag a x) 0) as [Z|NZ]; [exact Z|]. exfalso. apply (A3 x NZ H).
  - intros v l x Hv Hc Hg. destruct (Nat.eq_dec (tag b v) 0) as [Z|NZ].
    + pose proof (B6 v l x Z Hc Hg) as H.
      destruct (Nat.eq_dec (tag a x) 0) as [Zx|NZx]; [exact Zx|]. exfalso. apply (A3 x NZx H).
    + destruct (B5 v l x NZ Hg) as [H|H].
      * eapply A6; eauto.
      * destruct (Nat.eq_dec (tag a x) 0) as [Zx|NZx]; [exact Zx|]. exfalso. apply (A3 x NZx H).
Qed.

Lemma mono_absent s s' v : mono s s' -> tag s' v = 0 -> tag s v = 0.
Proof.
  intros M Z. destruct (Nat.eq_dec (tag s v) 0) as [E|NE]; [exact E|]. exfalso. apply (mo_tag _ _ M v NE Z).
Qed.

(** ** summaries of the primitive calls *)

Lemma put_sum n g v d :
  Inv n g -> tag g v <> 0 ->
  exists g', op_put g v d = Ok g' /\ Inv n g'
    /\ cap_of g' = cap_of g /\ g_next g' = g_next g
    /\ (forall w, tag g' w = tag g w)
    /\ (forall w, prs g' w = if w =? v then PStored else prs g w)
    /\ (forall w, dat g' w = if w =? v then d else dat g w)
    /\ (forall w, edg g' w = edg g w).
Proof.
  intros HI Tv. destruct (inv_put n g v d HI Tv) as (g' & A & I').
  pose proof (i_tag HI v) as Lt.
  destruct (put_effect g v d) as (g2 & A2 & T & P & Dd & E & M & S & X).
  { apply tag_nonzero_lt; exact Tv. }
  { rewrite (i_nb HI); exact Lt. }
  { rewrite (i_ns HI); exact Lt. }
  assert (g2 = g') by congruence. subst g2. destruct X as [X1 X2 X3 X4].
  exists g'. split; [exact A|]. split; [exact I'|]. split; [exact X1|]. split; [exact X4|].
  split; [exact T|]. split; [exact P|]. split; [exact Dd|exact E].
Qed.

Lemma spec_insert_fresh e a v : mm_get e a = None -> spec_insert e a v = e ++ [(a, v)].
Proof. intros H. unfold spec_insert. rewrite (proj2 (mm_replace_none e a v) H). reflexivity. Qed.

Lemma bind_sum n g v1 v2 a :
  Inv n g -> cpre n g (OBind v1 v2 a) ->
  exists g', op_bind n g v1 v2 a = Ok g' /\ Inv n g'
    /\ cap_of g' = cap_of g /\ g_next g' = g_next g
    /\ (forall w, tag g' w = 0 <-> tag g w = 0)
    /\ (forall w, prs g' w = prs g w) /\ (forall w, dat g' w = dat g w)
    /\ (forall w, edg g' w = if w =? v1 then spec_insert (edg g v1) a v2 else edg g w).
Proof.
  intros HI Hp. destruct (inv_bind n g v1 v2 a HI Hp) as (g' & A & I').
  destruct Hp as (T1 & T2 & Hne & Hr & Huu & Hug & Hgu).
  pose proof (tag_nonzero_lt g v1 T1) as L1. pose proof (tag_nonzero_lt g v2 T2) as L2.
  pose proof (i_nb HI) as Hnb. pose proof (i_ns HI) as Hns.
  exists g'. split; [exact A|]. split; [exact I'|].
  destruct (Nat.eq_dec (tag g v1) 1) as [E1|N1]; destruct (Nat.eq_dec (tag g v2) 1) as [E2|N2].
  - destruct (Huu E1 E2) as (b & Hf).
    destruct (first_empty_group n g b HI Hf) as (Hb1 & Hb2 & Hmb).
    destruct (bind_uu n g v1 v2 a b L1 L2 Hnb Hns E1 E2 Hr Hf) as (g2 & B & T & P & Dd & E & M & S & X).
    assert (g2 = g') by congruence. subst g2. destruct X as [X1 X2 X3 X4].
    repeat split; auto; rewrite T; destruct ((w =? v1) || (w =? v2)) eqn:C; auto; try lia.
    apply orb_true_iff in C as [C|C]; apply Nat.eqb_eq in C; subst w; lia.
  - pose proof (i_tag HI v2) as Lt.
    destruct (bind_ug n g v1 v2 a L1 L2 Hnb Hns E1 N2 Lt Hr (Hug E1 N2)) as (g2 & B & T & P & Dd & E & M & S & X).
    assert (g2 = g') by congruence. subst g2. destruct X as [X1 X2 X3 X4].
    repeat split; auto; rewrite T; destruct (Nat.eqb_spec w v1) as [->|]; auto; lia.
  - pose proof (i_tag HI v1) as Lt.
    destruct (bind_gu n g v1 v2 a L1 L2 Hnb Hns N1 E2 Lt Hr (Hgu N1 E2)) as (g2 & B & T & P & Dd & E & M & S & X).
    assert (g2 = g') by congruence. subst g2. destruct X as [X1 X2 X3 X4].
    repeat split; auto; rewrite T; destruct (Nat.eqb_spec w v2) as [->|]; auto; lia.
  - destruct (bind_gg n g v1 v2 a L1 L2 N1 N2 Hr) as (g2 & B & T & P & Dd & E & M & S & X).
    assert (g2 = g') by congruence. subst g2. destruct X as [X1 X2 X3 X4].
    repeat split; auto; rewrite T; auto.
Qed.

Ltac nat_case v w :=
  let E := fresh "E" in
  destruct (Nat.eq_dec v w) as [E|E];
  [ try subst v; try subst w; try rewrite !Nat.eqb_refl in * |
    let B := fresh "B" in
    pose proof (proj2 (Nat.eqb_neq v w) E) as B; try rewrite !B in * ].

(** the three calls that graft a new vertex under [left]: next_id, add, bind *)
Lemma attach_fresh n s left a k c :
  Inv n s -> tag s left <> 0 -> mm_get (edg s left) a = None -> length (edg s left) < n ->
  bound s k -> k <= 14 -> free s (S c) ->
  exists s' id,
    attach n s left a None None = Ok (s', id)
    /\ Inv n s' /\ mono s s'
    /\ tag s id = 0 /\ g_next s <= id /\ id < cap_of s /\ id <> left
    /\ (forall w, tag s' w <> 0 <-> (w = id \/ tag s w <> 0))
    /\ (forall w, w <> id -> prs s' w = prs s w /\ dat s' w = dat s w)
    /\ prs s' id = PEmpty /\ dat s' id = hex_empty
    /\ (forall w, edg s' w = if w =? left then edg s left ++ [(a, id)]
                             else if w =? id then [] else edg s w)
    /\ bound s' (S k) /\ free s' c.
Proof.
  intros HI Tl Hnone Hlen HB Hk (F & HF1 & HF2 & HF3).
  destruct F as [|f0 F']; [cbn in HF1; lia|].
  assert (Hpre : cpre n s ONext).
  { exists f0. destruct (HF3 f0 (or_introl eq_refl)) as (A1 & A2 & A3). auto. }
  destruct (next_id_effect s Hpre) as (id & Hn & N1 & N2 & N3 & N4).
  destruct (inv_next n s HI Hpre) as (s1' & id' & Hn' & I1).
  rewrite Hn in Hn'. injection Hn' as <- <-.
  set (s1 := set_next s (S id)) in *.
  assert (Hidf : id <= f0).
  { destruct (HF3 f0 (or_introl eq_refl)) as (A1 & A2 & A3).
    destruct (Nat.le_gt_cases id f0) as [H|H]; [exact H|]. exfalso. apply (N4 f0 A1 H A3). }
  assert (Hne : id <> left) by (intros ->; contradiction).
  assert (C1 : id < cap_of s1) by (unfold s1; sodg_rw; exact N2).
  assert (Z1 : tag s1 id = 0) by (unfold s1; sodg_rw; exact N3).
  destruct (add_effect s1 id C1) as (s2 & Ha & T2 & P2 & D2 & E2 & M2 & S2 & X2).
  destruct (inv_add n s1 id I1 C1) as (s2' & Ha' & I2). rewrite Ha in Ha'. injection Ha' as <-.
  rewrite Z1 in T2, P2, D2, E2. cbn [Nat.eqb] in T2, P2, D2, E2.
  assert (T2' : forall w, tag s2 w = if w =? id then 1 else tag s w).
  { intros w. rewrite T2, andb_true_r. unfold s1. sodg_rw. reflexivity. }
  assert (E2' : forall w, edg s2 w = if w =? id then [] else edg s w).
  { intros w. rewrite E2, andb_true_r. unfold s1. sodg_rw. reflexivity. }
  assert (P2' : forall w, prs s2 w = if w =? id then PEmpty else prs s w).
  { intros w. rewrite P2, andb_true_r. unfold s1. sodg_rw. reflexivity. }
  assert (D2' : forall w, dat s2 w = if w =? id then hex_empty else dat s w).
  { intros w. rewrite D2, andb_true_r. unfold s1. sodg_rw. reflexivity. }
  destruct X2 as [Xc _ _ Xn].
  assert (Xc' : cap_of s2 = cap_of s) by (rewrite Xc; unfold s1; sodg_rw; reflexivity).
  assert (Xn' : g_next s2 = S id) by (rewrite Xn; unfold s1; sodg_rw; reflexivity).
  destruct HB as (L & HL1 & HL2).
  assert (HB2 : bound s2 (S k)).
  { exists (id :: L). split; [cbn [length]; lia|]. intros v Hv. rewrite T2' in Hv.
    nat_case v id; [left; reflexivity|right; apply HL2; exact Hv]. }
  assert (Tl2 : tag s2 left = tag s left).
  { rewrite T2'. destruct (Nat.eqb_spec left id) as [E|_]; [congruence|reflexivity]. }
  assert (Ti2 : tag s2 id = 1) by (rewrite T2', Nat.eqb_refl; reflexivity).
  assert (El2 : edg s2 left = edg s left).
  { rewrite E2'. destruct (Nat.eqb_spec left id) as [E|_]; [congruence|reflexivity]. }
  assert (Hp3 : cpre n s2 (OBind left id a)).
  { cbn [cpre]. rewrite Tl2, Ti2. split; [exact Tl|]. split; [lia|]. split; [congruence|].
    split; [right; rewrite El2; exact Hlen|]. split; [|split].
    - intros H1 _. apply (first_empty_exists n s2 (S k) left id); auto; try lia; try congruence.
    - intros _ H. congruence.
    - intros H1 _. rewrite <- Tl2.
      apply (members_room n s2 (S k) left id); auto; try lia; try congruence. }
  destruct (bind_sum n s2 left id a I2 Hp3) as (s3 & Hb & I3 & C3 & N3' & T3 & P3 & D3 & E3).
  rewrite El2, (spec_insert_fresh _ _ _ Hnone) in E3.
  assert (E3' : forall w, edg s3 w = if w =? left then edg s left ++ [(a, id)]
                                   else if w =? id then [] else edg s w).
  { intros w. rewrite E3. destruct (w =? left); [reflexivity|]. apply E2'. }
  assert (T3' : forall w, tag s3 w <> 0 <-> (w = id \/ tag s w <> 0)).
  { intros w. rewrite T3, T2'. destruct (Nat.eqb_spec w id) as [->|Hw]; [split; [auto|lia]|].
    split; [auto|]. intros [H|H]; [contradiction|exact H]. }
  exists s3, id. split.
  { unfold attach. rewrite Hn. cbn [obind fst snd]. fold s1. rewrite Ha. cbn [obind].
    rewrite Hb. reflexivity. }
  split; [exact I3|]. split.
  { split.
    - congruence.
    - rewrite N3', Xn'. lia.
    - intros v Hv. apply T3'. right; exact Hv.
    - intros v b w Hv Hg. rewrite E3'. destruct (Nat.eq_dec v left) as [Evl|Nvl].
      + subst v. rewrite Nat.eqb_refl.
        rewrite (mm_get_app_fresh _ _ _ _ Hnone). destruct (label_eqb a b) eqn:Eab; [|exact Hg].
        apply label_eqb_spec in Eab. subst b. congruence.
      + apply Nat.eqb_neq in Nvl. rewrite Nvl.
        destruct (Nat.eq_dec v id) as [Evi|Nvi]; [subst v; contradiction|].
        apply Nat.eqb_neq in Nvi. rewrite Nvi. exact Hg.
    - intros v b x Hv Hg. rewrite E3' in Hg. destruct (Nat.eq_dec v left) as [Evl|Nvl].
      + subst v. rewrite Nat.eqb_refl in Hg.
        rewrite (mm_get_app_fresh _ _ _ _ Hnone) in Hg. destruct (label_eqb a b); [|left; exact Hg].
        injection Hg as <-. right; exact N3.
      + apply Nat.eqb_neq in Nvl. rewrite Nvl in Hg.
        destruct (Nat.eq_dec v id) as [Evi|Nvi]; [subst v; contradiction|].
        apply Nat.eqb_neq in Nvi. rewrite Nvi in Hg. left; exact Hg.
    - intros v b x Hv Hv' Hg. apply T3' in Hv' as [Evi|Hv']; [subst v|contradiction].
      rewrite E3' in Hg. apply Nat.eqb_neq in Hne. rewrite Hne in Hg.
      rewrite Nat.eqb_refl in Hg. discriminate. }
  split; [exact N3|]. split; [exact N1|]. split; [exact N2|]. split; [exact Hne|].
  split; [exact T3'|]. split.
  { intros w Hw. rewrite P3, D3, P2', D2'. apply Nat.eqb_neq in Hw. rewrite Hw. split; reflexivity. }
  split; [rewrite P3, P2', Nat.eqb_refl; reflexivity|].
  split; [rewrite D3, D2', Nat.eqb_refl; reflexivity|].
  split; [exact E3'|]. split.
  { destruct HB2 as (L2 & A1 & A2). exists L2. split; [exact A1|]. intros v Hv. apply A2.
    intros Z. apply Hv. apply T3. exact Z. }
  exists F'. split; [cbn [length] in HF1; lia|].
  apply StronglySorted_inv in HF2 as [HF2 HF4]. split; [exact HF2|].
  intros v Hv. rewrite Forall_forall in HF4. specialize (HF4 v Hv).
  destruct (HF3 v (or_intror Hv)) as (A1 & A2 & A3).
  split; [rewrite N3', Xn'; lia|]. split; [rewrite C3, Xc'; exact A2|].
  apply T3. rewrite T2'. destruct (Nat.eqb_spec v id) as [->|_]; [lia|exact A3].
Qed.
