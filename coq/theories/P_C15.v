(** * P_C15: property C15 of the sodg verification.

    "A Hex holds exactly the bytes it was built from: bytes/len/to_vec/print/
    indexing/byte_at/tail/equality depend only on that byte string and never
    on whether it is stored inline (up to 8 bytes) or on the heap, and every
    index or range panics exactly when the same index on the byte slice
    would.  from_str(print(h)) equals h for every h, and the i64/f64
    conversions are bit-exact inverses of From that fail for any length other
    than 8."

    Quantifier: every byte string, both representations including inline
    arrays with non-zero padding ([wf_hex] constrains only what the Rust
    types and the crate invariant guarantee: 8 array bytes, bytes < 256,
    used length <= 8), every index, every range of the six kinds.  Indices
    and bounds are arbitrary [N] (no upper bound is needed).

    [same_out x y] (HexFacts.v): both [Ok] with equal values, or both [Panic]
    (the panic kind is not compared); false in every other case.

    This file holds only the property theorems; every proof is in
    HexFacts.v. *)

From Sodg Require Import Base Text Hex HexFacts.

Theorem C15_len :
  forall h, wf_hex h = true -> hex_len h = length (bytes h).
Proof. exact len_bytes. Qed.

Check C15_len :
  forall h, wf_hex h = true -> hex_len h = length (bytes h).
Print Assumptions C15_len.

Theorem C15_to_vec :
  forall h, hex_to_vec h = bytes h.
Proof. exact to_vec_bytes. Qed.

Check C15_to_vec :
  forall h, hex_to_vec h = bytes h.
Print Assumptions C15_to_vec.

Theorem C15_is_empty :
  forall h, wf_hex h = true -> (hex_is_empty h = true <-> bytes h = []).
Proof. exact is_empty_bytes. Qed.

Check C15_is_empty :
  forall h, wf_hex h = true -> (hex_is_empty h = true <-> bytes h = []).
Print Assumptions C15_is_empty.

Theorem C15_eq :
  forall a b, hex_eqb a b = true <-> bytes a = bytes b.
Proof. exact hex_eqb_spec. Qed.

Check C15_eq :
  forall a b, hex_eqb a b = true <-> bytes a = bytes b.
Print Assumptions C15_eq.

Theorem C15_index :
  forall h i, wf_hex h = true -> same_out (hex_index h i) (idx (bytes h) i).
Proof. exact index_bytes. Qed.

Check C15_index :
  forall h i, wf_hex h = true -> same_out (hex_index h i) (idx (bytes h) i).
Print Assumptions C15_index.

Theorem C15_range :
  forall h k s e, wf_hex h = true ->
    same_out (hex_range h k s e) (sl_kind (bytes h) k s e).
Proof. exact range_bytes. Qed.

Check C15_range :
  forall h k s e, wf_hex h = true ->
    same_out (hex_range h k s e) (sl_kind (bytes h) k s e).
Print Assumptions C15_range.

Theorem C15_byte_at :
  forall h p, wf_hex h = true ->
    same_out (hex_byte_at h p) (idx (bytes h) p) /\
    same_out (hex_byte_at h p) (hex_index h p).
Proof. exact byte_at_facts. Qed.

Check C15_byte_at :
  forall h p, wf_hex h = true ->
    same_out (hex_byte_at h p) (idx (bytes h) p) /\
    same_out (hex_byte_at h p) (hex_index h p).
Print Assumptions C15_byte_at.

Theorem C15_tail :
  forall h skip, wf_hex h = true ->
    ((skip <= nlen (bytes h))%N ->
       exists t, hex_tail h skip = Ok t /\
                 bytes t = skipn (N.to_nat skip) (bytes h) /\
                 wf_hex t = true) /\
    ((nlen (bytes h) < skip)%N -> exists k, hex_tail h skip = Panic k).
Proof. exact tail_facts. Qed.

Check C15_tail :
  forall h skip, wf_hex h = true ->
    ((skip <= nlen (bytes h))%N ->
       exists t, hex_tail h skip = Ok t /\
                 bytes t = skipn (N.to_nat skip) (bytes h) /\
                 wf_hex t = true) /\
    ((nlen (bytes h) < skip)%N -> exists k, hex_tail h skip = Panic k).
Print Assumptions C15_tail.

Theorem C15_repr :
  forall h1 h2,
    wf_hex h1 = true -> wf_hex h2 = true -> bytes h1 = bytes h2 ->
    hex_len h1 = hex_len h2 /\
    hex_print h1 = hex_print h2 /\
    (forall i, same_out (hex_index h1 i) (hex_index h2 i)) /\
    (forall k s e, same_out (hex_range h1 k s e) (hex_range h2 k s e)) /\
    (forall p, same_out (hex_byte_at h1 p) (hex_byte_at h2 p)) /\
    hex_to_i64 h1 = hex_to_i64 h2 /\
    hex_to_f64_bits h1 = hex_to_f64_bits h2 /\
    (forall x, hex_eqb h1 x = hex_eqb h2 x).
Proof. exact repr_facts. Qed.

Check C15_repr :
  forall h1 h2,
    wf_hex h1 = true -> wf_hex h2 = true -> bytes h1 = bytes h2 ->
    hex_len h1 = hex_len h2 /\
    hex_print h1 = hex_print h2 /\
    (forall i, same_out (hex_index h1 i) (hex_index h2 i)) /\
    (forall k s e, same_out (hex_range h1 k s e) (hex_range h2 k s e)) /\
    (forall p, same_out (hex_byte_at h1 p) (hex_byte_at h2 p)) /\
    hex_to_i64 h1 = hex_to_i64 h2 /\
    hex_to_f64_bits h1 = hex_to_f64_bits h2 /\
    (forall x, hex_eqb h1 x = hex_eqb h2 x).
Print Assumptions C15_repr.

Theorem C15_from :
  forall l, forallb wf_byte l = true ->
    bytes (from_slice l) = l /\ wf_hex (from_slice l) = true /\
    bytes (from_vec l) = l /\ wf_hex (from_vec l) = true.
Proof. exact from_facts. Qed.

Check C15_from :
  forall l, forallb wf_byte l = true ->
    bytes (from_slice l) = l /\ wf_hex (from_slice l) = true /\
    bytes (from_vec l) = l /\ wf_hex (from_vec l) = true.
Print Assumptions C15_from.

Theorem C15_print_parse :
  forall h, wf_hex h = true ->
    exists h', hex_from_str (hex_print h) = Some h' /\
               bytes h' = bytes h /\ hex_eqb h' h = true.
Proof. exact print_parse. Qed.

Check C15_print_parse :
  forall h, wf_hex h = true ->
    exists h', hex_from_str (hex_print h) = Some h' /\
               bytes h' = bytes h /\ hex_eqb h' h = true.
Print Assumptions C15_print_parse.

Theorem C15_i64 :
  forall z, (- (2 ^ 63) <= z < 2 ^ 63)%Z -> hex_to_i64 (hex_from_i64 z) = Some z.
Proof. exact i64_roundtrip. Qed.

Check C15_i64 :
  forall z, (- (2 ^ 63) <= z < 2 ^ 63)%Z -> hex_to_i64 (hex_from_i64 z) = Some z.
Print Assumptions C15_i64.

Theorem C15_i64_len :
  forall h, hex_to_i64 h = None <-> length (bytes h) <> 8.
Proof. exact i64_len. Qed.

Check C15_i64_len :
  forall h, hex_to_i64 h = None <-> length (bytes h) <> 8.
Print Assumptions C15_i64_len.

Theorem C15_i64_wf :
  forall z, wf_hex (hex_from_i64 z) = true.
Proof. exact i64_wf. Qed.

Check C15_i64_wf :
  forall z, wf_hex (hex_from_i64 z) = true.
Print Assumptions C15_i64_wf.

Theorem C15_f64 :
  forall w, (w < 2 ^ 64)%N -> hex_to_f64_bits (hex_from_f64_bits w) = Some w.
Proof. exact f64_roundtrip. Qed.

Check C15_f64 :
  forall w, (w < 2 ^ 64)%N -> hex_to_f64_bits (hex_from_f64_bits w) = Some w.
Print Assumptions C15_f64.

Theorem C15_f64_len :
  forall h, hex_to_f64_bits h = None <-> length (bytes h) <> 8.
Proof. exact f64_len. Qed.

Check C15_f64_len :
  forall h, hex_to_f64_bits h = None <-> length (bytes h) <> 8.
Print Assumptions C15_f64_len.

Theorem C15_f64_wf :
  forall w, wf_hex (hex_from_f64_bits w) = true.
Proof. exact f64_wf. Qed.

Check C15_f64_wf :
  forall w, wf_hex (hex_from_f64_bits w) = true.
Print Assumptions C15_f64_wf.

(** ** the hypotheses are satisfiable, the panic cases are reached *)

(** an inline value with non-zero padding is well formed; its bytes are the
    used prefix only *)
Example ex_wf_padding : wf_hex (HBytes [1;2;255;254;7;7;7;7]%N 2) = true.
Proof. vm_compute. reflexivity. Qed.

Example ex_bytes_padding : bytes (HBytes [1;2;255;254;7;7;7;7]%N 2) = [1;2]%N.
Proof. vm_compute. reflexivity. Qed.

Example ex_wf_heap : wf_hex (HVector [1;2;3;4;5;6;7;8;9;10]%N) = true.
Proof. vm_compute. reflexivity. Qed.

(** same bytes, both representations (hypotheses of [C15_repr]) *)
Example ex_repr_hyp :
  wf_hex (HBytes [1;2;255;254;7;7;7;7]%N 2) = true /\
  wf_hex (HVector [1;2]%N) = true /\
  bytes (HBytes [1;2;255;254;7;7;7;7]%N 2) = bytes (HVector [1;2]%N).
Proof. vm_compute. repeat split. Qed.

(** indexing into the padding panics, like the slice (different panic kind) *)
Example ex_index_padding :
  hex_index (HBytes [1;2;255;254;7;7;7;7]%N 2) 2 = Panic PAssert /\
  idx [1;2]%N 2 = Panic PIndex.
Proof. vm_compute. split; reflexivity. Qed.

(** ranges: [s > e], [e = len], [e = len + 1], [e = usize_max] *)
Example ex_range_s_gt_e :
  hex_range (HBytes [1;2;255;254;7;7;7;7]%N 2) RRange 2 1 = Panic PIndex /\
  sl_kind [1;2]%N RRange 2 1 = Panic PIndex.
Proof. vm_compute. split; reflexivity. Qed.

Example ex_range_e_len :
  hex_range (HBytes [1;2;255;254;7;7;7;7]%N 2) RRange 1 2 = Ok [2]%N /\
  sl_kind [1;2]%N RRange 1 2 = Ok [2]%N.
Proof. vm_compute. split; reflexivity. Qed.

Example ex_range_e_past_len :
  hex_range (HBytes [1;2;255;254;7;7;7;7]%N 2) RRange 1 3 = Panic PAssert /\
  sl_kind [1;2]%N RRange 1 3 = Panic PIndex.
Proof. vm_compute. split; reflexivity. Qed.

Example ex_range_incl_max :
  hex_range (HBytes [1;2;255;254;7;7;7;7]%N 2) RIncl 0 usize_max = Panic PAssert /\
  sl_kind [1;2]%N RIncl 0 usize_max = Panic PIndex /\
  hex_range (HVector [1;2]%N) RToIncl 0 usize_max = Panic PIndex.
Proof. vm_compute. repeat split. Qed.

Example ex_range_from_len :
  hex_range (HBytes [1;2;255;254;7;7;7;7]%N 2) RFrom 2 0 = Ok [] /\
  hex_range (HBytes [1;2;255;254;7;7;7;7]%N 2) RFrom 3 0 = Panic PAssert /\
  sl_kind [1;2]%N RFrom 3 0 = Panic PIndex.
Proof. vm_compute. repeat split. Qed.

(** tail: both branches of [C15_tail] *)
Example ex_tail_ok :
  hex_tail (HVector [1;2;3;4;5;6;7;8;9;10]%N) 3 =
  Ok (HBytes [4;5;6;7;8;9;10;0]%N 7).
Proof. vm_compute. reflexivity. Qed.

Example ex_tail_panic :
  hex_tail (HBytes [1;2;255;254;7;7;7;7]%N 2) 3 = Panic PIndex.
Proof. vm_compute. reflexivity. Qed.

(** print / from_str: "01-02" and the empty "--" *)
Example ex_print :
  hex_print (HBytes [1;2;255;254;7;7;7;7]%N 2) = [48;49;45;48;50]%N /\
  hex_print (HBytes [9;9;9;9;9;9;9;9]%N 0) = [45;45]%N.
Proof. vm_compute. split; reflexivity. Qed.

Example ex_print_parse :
  hex_from_str (hex_print (HBytes [1;2;255;254;7;7;7;7]%N 2)) =
  Some (HBytes [1;2;0;0;0;0;0;0]%N 2) /\
  hex_from_str (hex_print (HBytes [9;9;9;9;9;9;9;9]%N 0)) =
  Some (HBytes [0;0;0;0;0;0;0;0]%N 0).
Proof. vm_compute. split; reflexivity. Qed.

(** integers and floats: the bounds are inhabited, other lengths fail *)
Example ex_i64_bounds :
  (- (2 ^ 63) <= - (2 ^ 63) < 2 ^ 63)%Z /\ (- (2 ^ 63) <= 2 ^ 63 - 1 < 2 ^ 63)%Z.
Proof. vm_compute. repeat split; discriminate. Qed.

Example ex_i64_minus_one :
  hex_from_i64 (-1) = HBytes [255;255;255;255;255;255;255;255]%N 8 /\
  hex_to_i64 (hex_from_i64 (-1)) = Some (-1)%Z.
Proof. vm_compute. split; reflexivity. Qed.

Example ex_i64_min :
  hex_to_i64 (hex_from_i64 (- (2 ^ 63))) = Some (- (2 ^ 63))%Z.
Proof. vm_compute. reflexivity. Qed.

Example ex_i64_short :
  hex_to_i64 (HBytes [1;2;255;254;7;7;7;7]%N 2) = None /\
  hex_to_i64 (HVector [1;2;3;4;5;6;7;8;9]%N) = None.
Proof. vm_compute. split; reflexivity. Qed.

Example ex_f64_bound : (2 ^ 64 - 1 < 2 ^ 64)%N.
Proof. vm_compute. reflexivity. Qed.

Example ex_f64_pi :
  hex_to_f64_bits (hex_from_f64_bits 4614256656552045848) = Some 4614256656552045848%N.
Proof. vm_compute. reflexivity. Qed.

Example ex_f64_short :
  hex_to_f64_bits (HBytes [1;2;255;254;7;7;7;7]%N 7) = None.
Proof. vm_compute. reflexivity. Qed.
