(** * C03  Edges and data read back exactly what was last written

    "For every present vertex v, kid(v,a) is the target of the most recent
    bind(v,.,a) since v was created (None if there was none) and kids(v) yields
    exactly one entry per label so bound.  data(v) is None until the first put
    and afterwards returns exactly the bytes of the most recent put(v,.), on
    the first read and on every later read.  Calls on other vertices,
    including the collection of other groups, never change these answers."

    Shape: refinement to last-write maps.  (1) [C03_observations_refine]: for
    every call sequence within the limits the model of the code returns, call
    by call, the answers of the reference model (this includes every kid /
    kids / data answer, and it is proved for every label variant and every
    data value, the data being compared as values with their representation).
    (2) The reference model keeps per vertex an insertion-ordered edge list
    and a last datum; the theorems below are its laws: what bind / put write,
    and that nothing else (reads, collections, next_id, add of other ids)
    changes any edge or datum.  (3) [C03_one_entry_per_label]: in every state
    satisfying the invariant the labels of a vertex are pairwise distinct. *)

From Sodg Require Import HistoryThms.

Theorem C03_observations_refine :
  forall n cap os,
  within_limits n cap sinit os ->
  exists g', run n (op_empty cap) os = Ok (g', snd (srun sinit os)).
Proof. exact observations_refine. Qed.

Check C03_observations_refine :
  forall n cap os,
  within_limits n cap sinit os ->
  exists g', run n (op_empty cap) os = Ok (g', snd (srun sinit os)).
Print Assumptions C03_observations_refine.

Theorem C03_kid_answer :
  forall s v a, snd (sstep s (OKid v a)) = RKid (mm_get (s_edges s v) a).
Proof. exact spec_kid_answer. Qed.

Check C03_kid_answer :
  forall s v a, snd (sstep s (OKid v a)) = RKid (mm_get (s_edges s v) a).
Print Assumptions C03_kid_answer.

Theorem C03_kids_answer :
  forall s v, snd (sstep s (OKids v)) = RKids (s_edges s v).
Proof. exact spec_kids_answer. Qed.

Check C03_kids_answer :
  forall s v, snd (sstep s (OKids v)) = RKids (s_edges s v).
Print Assumptions C03_kids_answer.

Theorem C03_data_answer :
  forall s v, snd (sstep s (OData v)) = RData (s_data s v).
Proof. exact spec_data_answer. Qed.

Check C03_data_answer :
  forall s v, snd (sstep s (OData v)) = RData (s_data s v).
Print Assumptions C03_data_answer.

Theorem C03_bind_writes :
  forall s v1 v2 a,
  let s' := fst (sstep s (OBind v1 v2 a)) in
  (forall b, mm_get (s_edges s' v1) b = if label_eqb a b then Some v2 else mm_get (s_edges s v1) b)
  /\ map fst (s_edges s' v1) = (if in_dec label_eq_dec a (map fst (s_edges s v1))
                                then map fst (s_edges s v1) else map fst (s_edges s v1) ++ [a])
  /\ (forall w, w <> v1 -> s_edges s' w = s_edges s w)
  /\ (forall w, s_data s' w = s_data s w).
Proof. exact spec_bind_edges. Qed.

Check C03_bind_writes :
  forall s v1 v2 a,
  let s' := fst (sstep s (OBind v1 v2 a)) in
  (forall b, mm_get (s_edges s' v1) b = if label_eqb a b then Some v2 else mm_get (s_edges s v1) b)
  /\ map fst (s_edges s' v1) = (if in_dec label_eq_dec a (map fst (s_edges s v1))
                                then map fst (s_edges s v1) else map fst (s_edges s v1) ++ [a])
  /\ (forall w, w <> v1 -> s_edges s' w = s_edges s w)
  /\ (forall w, s_data s' w = s_data s w).
Print Assumptions C03_bind_writes.

Theorem C03_put_writes :
  forall s v d,
  let s' := fst (sstep s (OPut v d)) in
  s_data s' v = Some d /\ (forall w, w <> v -> s_data s' w = s_data s w)
  /\ (forall w, s_edges s' w = s_edges s w).
Proof. exact spec_put_data. Qed.

Check C03_put_writes :
  forall s v d,
  let s' := fst (sstep s (OPut v d)) in
  s_data s' v = Some d /\ (forall w, w <> v -> s_data s' w = s_data s w)
  /\ (forall w, s_edges s' w = s_edges s w).
Print Assumptions C03_put_writes.

Theorem C03_reads_change_nothing :
  forall s o,
  match o with OData _ | ONext | OKid _ _ | OKids _ | OKeys => True | _ => False end ->
  forall w, s_edges (fst (sstep s o)) w = s_edges s w /\ s_data (fst (sstep s o)) w = s_data s w.
Proof. exact spec_frame_readers. Qed.

Check C03_reads_change_nothing :
  forall s o,
  match o with OData _ | ONext | OKid _ _ | OKids _ | OKeys => True | _ => False end ->
  forall w, s_edges (fst (sstep s o)) w = s_edges s w /\ s_data (fst (sstep s o)) w = s_data s w.
Print Assumptions C03_reads_change_nothing.

Theorem C03_add_frame :
  forall s v w,
  w <> v -> s_edges (fst (sstep s (OAdd v))) w = s_edges s w /\ s_data (fst (sstep s (OAdd v))) w = s_data s w.
Proof. exact spec_frame_add. Qed.

Check C03_add_frame :
  forall s v w,
  w <> v -> s_edges (fst (sstep s (OAdd v))) w = s_edges s w /\ s_data (fst (sstep s (OAdd v))) w = s_data s w.
Print Assumptions C03_add_frame.

Theorem C03_add_present_changes_nothing :
  forall s v,
  s_present s v = true -> sstep s (OAdd v) = (s, RUnit).
Proof. exact spec_add_present. Qed.

Check C03_add_present_changes_nothing :
  forall s v,
  s_present s v = true -> sstep s (OAdd v) = (s, RUnit).
Print Assumptions C03_add_present_changes_nothing.

Theorem C03_add_absent_blank :
  forall s v,
  s_present s v = false ->
  let s' := fst (sstep s (OAdd v)) in
  s_present s' v = true /\ s_grp s' v = None /\ s_unread s' v = false
  /\ s_edges s' v = [] /\ s_data s' v = None
  /\ (forall w, w <> v -> s_present s' w = s_present s w /\ s_grp s' w = s_grp s w
                          /\ s_unread s' w = s_unread s w /\ s_edges s' w = s_edges s w
                          /\ s_data s' w = s_data s w)
  /\ s_alloc s' = s_alloc s.
Proof. exact spec_add_absent. Qed.

Check C03_add_absent_blank :
  forall s v,
  s_present s v = false ->
  let s' := fst (sstep s (OAdd v)) in
  s_present s' v = true /\ s_grp s' v = None /\ s_unread s' v = false
  /\ s_edges s' v = [] /\ s_data s' v = None
  /\ (forall w, w <> v -> s_present s' w = s_present s w /\ s_grp s' w = s_grp s w
                          /\ s_unread s' w = s_unread s w /\ s_edges s' w = s_edges s w
                          /\ s_data s' w = s_data s w)
  /\ s_alloc s' = s_alloc s.
Print Assumptions C03_add_absent_blank.

Theorem C03_one_entry_per_label :
  forall n g v,
  Inv n g -> NoDup (map fst (edg g v)) /\ length (edg g v) <= n.
Proof. exact one_entry_per_label. Qed.

Check C03_one_entry_per_label :
  forall n g v,
  Inv n g -> NoDup (map fst (edg g v)) /\ length (edg g v) <= n.
Print Assumptions C03_one_entry_per_label.


Ltac limits_solve :=
  repeat match goal with
         | |- _ /\ _ => split
         | |- True => exact I
         | |- _ = _ => reflexivity
         | |- _ <> _ => discriminate || lia
         | |- _ < _ => vm_compute; lia
         | |- _ \/ _ => (left; reflexivity) || (right; vm_compute; lia)
         | |- match ?x with _ => _ end => let y := eval vm_compute in x in change x with y; cbv iota beta
         | |- exists _ : nat, _ =>
             first [ (exists 0; vm_compute; repeat split; (lia || reflexivity))
                   | (exists 1; vm_compute; repeat split; (lia || reflexivity))
                   | (exists 2; vm_compute; repeat split; (lia || reflexivity))
                   | (exists 3; vm_compute; repeat split; (lia || reflexivity))
                   | (exists 4; vm_compute; repeat split; (lia || reflexivity))
                   | (exists 5; vm_compute; repeat split; (lia || reflexivity)) ]
         end.

(** non-vacuity: a label re-bound (it keeps its position), a datum
    overwritten, first and later reads, a collection elsewhere in between *)
Definition ex_os : list op :=
  [OAdd 0; OAdd 1; OAdd 2; OBind 0 1 (Alpha 7); OBind 0 2 (LStr [102; 111; 111; 32; 32; 32; 32; 32]%N);
   OBind 0 2 (Alpha 7); OKid 0 (Alpha 7); OKids 0;
   OAdd 3; OPut 3 (HVector [1%N]); OPut 3 (HBytes [2; 3; 0; 0; 0; 0; 0; 0]%N 2); OData 3; OData 3; OKids 0].

Example C03_example : within_limits 2 4 sinit ex_os
  /\ exists g', run 2 (op_empty 4) ex_os = Ok (g', snd (srun sinit ex_os))
     /\ snd (srun sinit ex_os) =
        [RUnit; RUnit; RUnit; RUnit; RUnit; RUnit; RKid (Some 2);
         RKids [(Alpha 7, 2); (LStr [102; 111; 111; 32; 32; 32; 32; 32]%N, 2)];
         RUnit; RUnit; RUnit; RData (Some (HBytes [2; 3; 0; 0; 0; 0; 0; 0]%N 2));
         RData (Some (HBytes [2; 3; 0; 0; 0; 0; 0; 0]%N 2));
         RKids [(Alpha 7, 2); (LStr [102; 111; 111; 32; 32; 32; 32; 32]%N, 2)]].
Proof.
  split.
  - unfold ex_os. cbn [within_limits pre]. repeat (split; [limits_solve|]); limits_solve.
  - eexists. split; vm_compute; reflexivity.
Qed.


