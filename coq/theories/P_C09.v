(** * P_C09: property C09 of the sodg verification.

    "load() of a truncated image is an error: not a graph, not a panic."

    Every proper prefix of the image of a well-formed state makes the decoder
    run out of input ([DEof], bincode's [UnexpectedEof]), which [load()]
    reports as [Err] ([LErr]).  [wf_image_state] is written out in P_C08.v
    ([C08_def_wf_image_state]).

    The general fact behind it holds for every input, well-formed or not
    ([C09_prefix_any_input]): if the decoder accepts some bytes, then on any
    prefix of them it either accepts with the same graph or runs out of
    input; it never panics, never reports another error and never reaches
    the model's cut-off on a prefix of an accepted input.

    This file holds only the property theorems; every proof is in
    SerialFacts.v. *)

From Sodg Require Import Serial SerialFacts.

Theorem C09_cut :
  forall lim n g k,
    wf_image_state lim n g ->
    k < length (encode g) ->
    psodg lim n (firstn k (encode g)) = DEof.
Proof. exact psodg_cut. Qed.

Check C09_cut :
  forall lim n g k,
    wf_image_state lim n g ->
    k < length (encode g) ->
    psodg lim n (firstn k (encode g)) = DEof.
Print Assumptions C09_cut.

Theorem C09_load_cut :
  forall lim n g k,
    wf_image_state lim n g ->
    k < length (encode g) ->
    decode lim n (firstn k (encode g)) = LErr.
Proof. exact load_cut. Qed.

Check C09_load_cut :
  forall lim n g k,
    wf_image_state lim n g ->
    k < length (encode g) ->
    decode lim n (firstn k (encode g)) = LErr.
Print Assumptions C09_load_cut.

Theorem C09_prefix_any_input :
  forall lim n l e g r,
    psodg lim n (l ++ e) = DOk g r ->
    psodg lim n l = DEof \/
    exists r', psodg lim n l = DOk g r' /\ r = r' ++ e.
Proof. exact psodg_prefix. Qed.

Check C09_prefix_any_input :
  forall lim n l e g r,
    psodg lim n (l ++ e) = DOk g r ->
    psodg lim n l = DEof \/
    exists r', psodg lim n l = DOk g r' /\ r = r' ++ e.
Print Assumptions C09_prefix_any_input.

(** ** the [DEof] above is the end of the input, not the end of the fuel

    [prepeat] and [pedges_loop] (Serial.v) recurse on a fuel and answer
    [DEof] when it is used up; [pseq], [pedges], [pstack] pass
    [S (length input)].  Every element parser they are used with takes at
    least one byte when it succeeds ([consumes]), and then any two fuels
    above the input length give the same result: the fuel never decides. *)

Theorem C09_def_consumes :
  forall A (p : parser A),
    consumes p <-> forall l a r, p l = DOk a r -> length r < length l.
Proof. exact consumes_def. Qed.

Check C09_def_consumes :
  forall A (p : parser A),
    consumes p <-> forall l a r, p l = DOk a r -> length r < length l.
Print Assumptions C09_def_consumes.

Theorem C09_fuel_adequate_repeat :
  forall A (p : parser A),
    consumes p ->
    forall f f' count l,
      length l < f -> length l < f' ->
      prepeat f count p l = prepeat f' count p l.
Proof. exact @prepeat_fuel_any. Qed.

Check C09_fuel_adequate_repeat :
  forall A (p : parser A),
    consumes p ->
    forall f f' count l,
      length l < f -> length l < f' ->
      prepeat f count p l = prepeat f' count p l.
Print Assumptions C09_fuel_adequate_repeat.

Theorem C09_fuel_adequate_edges :
  forall lim n f f' count acc l,
    length l < f -> length l < f' ->
    pedges_loop f count lim n acc l = pedges_loop f' count lim n acc l.
Proof. exact pedges_loop_fuel_any. Qed.

Check C09_fuel_adequate_edges :
  forall lim n f f' count acc l,
    length l < f -> length l < f' ->
    pedges_loop f count lim n acc l = pedges_loop f' count lim n acc l.
Print Assumptions C09_fuel_adequate_edges.

(** the parsers [prepeat] is used with: bytes of a heap datum, members of a
    group, and the (key, value) entries of the three emaps *)
Theorem C09_element_parsers_consume :
  forall lim n,
    consumes pbyte /\ consumes (psmall lim) /\ consumes (pedge lim) /\
    consumes (pentry lim (psmall lim)) /\
    consumes (pentry lim (pstack lim)) /\
    consumes (pentry lim (pvertex lim n)).
Proof. exact element_parsers_consume. Qed.

Check C09_element_parsers_consume :
  forall lim n,
    consumes pbyte /\ consumes (psmall lim) /\ consumes (pedge lim) /\
    consumes (pentry lim (psmall lim)) /\
    consumes (pentry lim (pstack lim)) /\
    consumes (pentry lim (pvertex lim n)).
Print Assumptions C09_element_parsers_consume.

Theorem C09_def_pentry :
  forall A lim (p : parser A),
    pentry lim p = (k <~ psmall lim ;; v <~ p ;; pret (k, v)) /\
    pemap lim p =
    (kvs <~ pseq (pentry lim p) ;;
     match emap_build kvs with Some l => pret l | None => pfail DPanic end).
Proof. exact pentry_def. Qed.

Check C09_def_pentry :
  forall A lim (p : parser A),
    pentry lim p = (k <~ psmall lim ;; v <~ p ;; pret (k, v)) /\
    pemap lim p =
    (kvs <~ pseq (pentry lim p) ;;
     match emap_build kvs with Some l => pret l | None => pfail DPanic end).
Print Assumptions C09_def_pentry.

(** ** non-vacuity: the hypotheses hold for [example_graph] (see P_C08.v),
    its image has 383 bytes, and each of the 383 proper prefixes is
    rejected with [LErr] (a sanity run of the model, not the proof) *)

Example C09_example_wf :
  wf_image_state 1048576 4 example_graph /\ length (encode example_graph) = 383.
Proof. split; [apply wf_image_stateb_spec|]; vm_compute; reflexivity. Qed.

Example C09_example_all_cuts :
  forallb (fun k => is_lerr (decode 1048576 4 (firstn k (encode example_graph))))
          (iota (length (encode example_graph))) = true.
Proof. vm_compute. reflexivity. Qed.

Example C09_example_full_image_accepted :
  is_lerr (decode 1048576 4 (encode example_graph)) = false.
Proof. vm_compute. reflexivity. Qed.

(** ** for every graph reachable through the interface *)

From Sodg Require Import Wf.

Theorem C09_reachable_graphs :
  forall n cap os lim,
  within_limits n cap sinit os -> Forall wf_op os ->
  (16 < lim)%N -> (N.of_nat cap < lim)%N -> (lim <= two64)%N -> (N.of_nat n < two64)%N ->
  exists g, run n (op_empty cap) os = Ok (g, snd (srun sinit os))
    /\ decode lim n (encode g) = LOk (mkG (g_stores g) (g_branches g) (g_vertices g) 0)
    /\ forall k, k < length (encode g) -> decode lim n (firstn k (encode g)) = LErr.
Proof. exact reachable_roundtrip. Qed.

Check C09_reachable_graphs :
  forall n cap os lim,
  within_limits n cap sinit os -> Forall wf_op os ->
  (16 < lim)%N -> (N.of_nat cap < lim)%N -> (lim <= two64)%N -> (N.of_nat n < two64)%N ->
  exists g, run n (op_empty cap) os = Ok (g, snd (srun sinit os))
    /\ decode lim n (encode g) = LOk (mkG (g_stores g) (g_branches g) (g_vertices g) 0)
    /\ forall k, k < length (encode g) -> decode lim n (firstn k (encode g)) = LErr.
Print Assumptions C09_reachable_graphs.

(** ** the set of images is prefix-free (SerialMore.v) *)

From Sodg Require Import SerialMore NextIrrelevant.

(** a complete image is never the beginning of a longer image: a file cut short is not the image of another graph *)
Theorem C09_image_prefix_free :
  forall lim n g1 g2 rest,
    wf_image_state lim n g1 -> wf_image_state lim n g2 ->
    encode g2 = encode g1 ++ rest -> rest = [].
Proof. exact image_prefix_free. Qed.

Check C09_image_prefix_free :
  forall lim n g1 g2 rest,
    wf_image_state lim n g1 -> wf_image_state lim n g2 ->
    encode g2 = encode g1 ++ rest -> rest = [].
Print Assumptions C09_image_prefix_free.

Theorem C09_image_prefix_same :
  forall lim n g1 g2 rest,
    wf_image_state lim n g1 -> wf_image_state lim n g2 ->
    encode g2 = encode g1 ++ rest -> renext 0 g1 = renext 0 g2.
Proof. exact image_prefix_same. Qed.

Check C09_image_prefix_same :
  forall lim n g1 g2 rest,
    wf_image_state lim n g1 -> wf_image_state lim n g2 ->
    encode g2 = encode g1 ++ rest -> renext 0 g1 = renext 0 g2.
Print Assumptions C09_image_prefix_same.

