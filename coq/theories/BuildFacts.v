(** * BuildFacts: graphs built by a list of calls from the empty graph satisfy
    the representation invariant when every call is within the limits (a
    computable check; used by the non-vacuity examples of C11). *)

From Sodg Require Export MergeFacts.
From Sodg Require Import History SpecDec.

Fixpoint within_limitsb (n cap : nat) (s : spec) (os : list op) : bool :=
  match os with
  | [] => true
  | o :: t => preb n cap s o && within_limitsb n cap (fst (sstep s o)) t
  end.

Lemma within_limitsb_ok n cap : forall os s,
  within_limitsb n cap s os = true -> within_limits n cap s os.
Proof.
  induction os as [|o t IH]; intros s H; cbn [within_limitsb within_limits] in *; [exact I|].
  apply andb_true_iff in H as [H1 H2]. split; [apply preb_spec; exact H1|apply IH; exact H2].
Qed.

Definition buildable (n cap : nat) (ops : list op) : bool := within_limitsb n cap sinit ops.

Lemma build_inv n cap ops :
  buildable n cap ops = true -> Inv n (build n cap ops) /\ cap_of (build n cap ops) = cap.
Proof.
  intros H. apply within_limitsb_ok in H.
  destruct (sim_run_empty n cap ops H) as (g' & A & I' & _ & C).
  unfold build. rewrite A. split; assumption.
Qed.
