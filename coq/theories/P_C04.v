(** * C04  add() creates a blank vertex or does nothing

    Property text: add(v) on an absent id makes v present with no edges and no
    data, even when v was the id of a vertex that was collected earlier.
    add(v) on a present id changes nothing: not its edges, not its data, not
    its group, nor the moment it will be collected.

    The model is a function of the state, so "changes nothing" is stated as
    equality of the whole state: every later call then behaves identically,
    which includes the moment of collection.  Nothing is assumed about the
    content of an absent slot (a collected vertex leaves its old edges and
    data there), so "even when v was collected earlier" is covered by the
    quantification over all states. *)

From Sodg Require Import Facts.

Definition blank_present : vertex := mkV BRANCH_STATIC hex_empty PEmpty [].

Lemma add_absent g v :
  v < cap_of g -> tag g v = 0 -> op_add g v = Ok (set_vtx g v blank_present).
Proof.
  intros Hv Ht. unfold op_add. rewrite chk_v_ok by exact Hv. simpl.
  rewrite Ht. reflexivity.
Qed.

Lemma add_present g v :
  v < cap_of g -> tag g v <> 0 -> op_add g v = Ok g.
Proof.
  intros Hv Ht. unfold op_add. rewrite chk_v_ok by exact Hv. simpl.
  apply Nat.eqb_neq in Ht. unfold BRANCH_NONE. rewrite Ht. reflexivity.
Qed.

(** what the new state answers: v is present, has no edge, no data, and every
    other slot, every member list, every counter and the allocator are as
    before *)
Lemma add_absent_effect g v g' :
  v < cap_of g -> tag g v = 0 -> op_add g v = Ok g' ->
  tag g' v = 1
  /\ op_kids g' v = Ok []
  /\ (forall a, op_kid g' v a = Ok None)
  /\ op_data g' v = Ok (g', None)
  /\ (forall w, w <> v -> vtx g' w = vtx g w)
  /\ (forall b, members g' b = members g b)
  /\ (forall b, store g' b = store g b)
  /\ g_next g' = g_next g
  /\ cap_of g' = cap_of g.
Proof.
  intros Hv Ht H. rewrite (add_absent g v Hv Ht) in H. inversion H; subst g'; clear H.
  assert (Hc : cap_of (set_vtx g v blank_present) = cap_of g) by apply cap_set_vtx.
  assert (Hx : vtx (set_vtx g v blank_present) v = blank_present) by (apply vtx_set_vtx_eq; exact Hv).
  repeat split.
  - unfold tag. rewrite Hx. reflexivity.
  - unfold op_kids, edg. rewrite chk_v_ok by (rewrite Hc; exact Hv). simpl. rewrite Hx. reflexivity.
  - intros a. unfold op_kid, edg. rewrite chk_v_ok by (rewrite Hc; exact Hv). simpl. rewrite Hx. reflexivity.
  - unfold op_data. rewrite chk_v_ok by (rewrite Hc; exact Hv). simpl. rewrite Hx. reflexivity.
  - intros w Hw. apply vtx_set_vtx_neq. congruence.
  - exact Hc.
Qed.

(** an id handed out by next_id() is absent, so add() on it creates a blank
    vertex whatever the slot held before *)
Lemma next_id_absent g g' id :
  op_next_id g = Ok (g', id) -> id < cap_of g' /\ tag g' id = 0.
Proof.
  unfold op_next_id. destruct (find _ _) as [x|] eqn:F; [|discriminate].
  intros H. inversion H; subst; clear H.
  apply find_some in F as [Hin Hp]. unfold iota in Hin. apply in_seq in Hin.
  apply andb_true_iff in Hp as [Hp _]. apply Nat.eqb_eq in Hp.
  destruct (g_next g <? id + 1); simpl; (split; [unfold cap_of in *; simpl; lia | exact Hp]).
Qed.

(** ** The property theorems *)

Theorem C04_absent : forall g v,
  v < cap_of g -> tag g v = 0 ->
  exists g', op_add g v = Ok g'
    /\ tag g' v = 1 /\ op_kids g' v = Ok [] /\ (forall a, op_kid g' v a = Ok None)
    /\ op_data g' v = Ok (g', None)
    /\ (forall w, w <> v -> vtx g' w = vtx g w)
    /\ (forall b, members g' b = members g b) /\ (forall b, store g' b = store g b)
    /\ g_next g' = g_next g /\ cap_of g' = cap_of g.
Proof.
  intros g v Hv Ht. exists (set_vtx g v blank_present). split.
  - apply add_absent; assumption.
  - apply (add_absent_effect g v); try assumption. apply add_absent; assumption.
Qed.
Check C04_absent : forall g v,
  v < cap_of g -> tag g v = 0 ->
  exists g', op_add g v = Ok g'
    /\ tag g' v = 1 /\ op_kids g' v = Ok [] /\ (forall a, op_kid g' v a = Ok None)
    /\ op_data g' v = Ok (g', None)
    /\ (forall w, w <> v -> vtx g' w = vtx g w)
    /\ (forall b, members g' b = members g b) /\ (forall b, store g' b = store g b)
    /\ g_next g' = g_next g /\ cap_of g' = cap_of g.
Print Assumptions C04_absent.

Theorem C04_present : forall g v, v < cap_of g -> tag g v <> 0 -> op_add g v = Ok g.
Proof. exact add_present. Qed.
Check C04_present : forall g v, v < cap_of g -> tag g v <> 0 -> op_add g v = Ok g.
Print Assumptions C04_present.

Theorem C04_after_next_id : forall g g' id,
  op_next_id g = Ok (g', id) ->
  exists g'', op_add g' id = Ok g'' /\ tag g'' id = 1 /\ op_kids g'' id = Ok []
              /\ op_data g'' id = Ok (g'', None).
Proof.
  intros g g' id H. destruct (next_id_absent g g' id H) as [Hv Ht].
  destruct (C04_absent g' id Hv Ht) as (g'' & A & B & C & _ & D & _).
  exists g''. auto.
Qed.
Check C04_after_next_id : forall g g' id,
  op_next_id g = Ok (g', id) ->
  exists g'', op_add g' id = Ok g'' /\ tag g'' id = 1 /\ op_kids g'' id = Ok []
              /\ op_data g'' id = Ok (g'', None).
Print Assumptions C04_after_next_id.

(** non-vacuity: a recycled slot with stale content, and a grouped vertex *)
Example C04_recycled_slot :
  let g0 := op_empty 4 in
  let stale := set_vtx g0 2 (mkV 0 (HVector [1; 2]%N) PTaken [(Alpha 0, 3)]) in
  2 < cap_of stale /\ tag stale 2 = 0 /\ edg stale 2 <> [] /\
  exists g', op_add stale 2 = Ok g' /\ edg g' 2 = [] /\ prs g' 2 = PEmpty.
Proof.
  cbv zeta. split; [vm_compute; lia|]. split; [reflexivity|].
  split; [vm_compute; discriminate|]. eexists. split; [vm_compute; reflexivity|].
  split; reflexivity.
Qed.

(** "... nor the moment it will be collected": after add() on a present vertex
    every continuation runs exactly as it would have run without that call *)
From Sodg Require Import Spec.

Theorem C04_present_same_future : forall n g v os,
  v < cap_of g -> tag g v <> 0 ->
  run n g (OAdd v :: os) = obind (run n g os) (fun r => Ok (fst r, RUnit :: snd r)).
Proof.
  intros n g v os Hv Ht. cbn [run step]. rewrite (add_present g v Hv Ht). cbn [obind fst snd].
  destruct (run n g os) as [[g' rs]| | |]; reflexivity.
Qed.
Check C04_present_same_future : forall n g v os,
  v < cap_of g -> tag g v <> 0 ->
  run n g (OAdd v :: os) = obind (run n g os) (fun r => Ok (fst r, RUnit :: snd r)).
Print Assumptions C04_present_same_future.
