(** * Limits: what happens at and beyond the capacity limits (C07), and the
    independence of the answers from the two size parameters (C19). *)

From Sodg Require Export HistoryThms.

(** ** C19: the reference model never looks at N or the capacity *)

Lemma pre_mono n1 n2 cap1 cap2 s o :
  n1 <= n2 -> cap1 <= cap2 -> pre n1 cap1 s o -> pre n2 cap2 s o.
Proof.
  intros Hn Hc. destruct o as [v|v1 v2 a|v d|v| |v a|v|]; cbn [pre]; auto.
  - lia.
  - intros (A & B & C & D & E). repeat split; auto. destruct D as [D|D]; [left; exact D|right; lia].
  - intros (id & A & B & C). exists id. repeat split; auto. lia.
Qed.

Lemma within_limits_mono n1 n2 cap1 cap2 : n1 <= n2 -> cap1 <= cap2 ->
  forall os s, within_limits n1 cap1 s os -> within_limits n2 cap2 s os.
Proof.
  intros Hn Hc. induction os as [|o t IH]; intros s; cbn [within_limits]; [auto|].
  intros [A B]. split; [eapply pre_mono; eauto|apply IH; exact B].
Qed.

(** two configurations, one call sequence inside the limits of both: same answers *)
Theorem config_independent n1 cap1 n2 cap2 os :
  within_limits n1 cap1 sinit os -> within_limits n2 cap2 sinit os ->
  exists g1 g2 rs,
    run n1 (op_empty cap1) os = Ok (g1, rs) /\ run n2 (op_empty cap2) os = Ok (g2, rs)
    /\ op_keys g1 = op_keys g2
    /\ (forall v, present g1 v = true ->
          edg g1 v = edg g2 v /\ prs g1 v = prs g2 v /\ (prs g1 v <> PEmpty -> dat g1 v = dat g2 v)).
Proof.
  intros H1 H2.
  destruct (sim_run_empty n1 cap1 os H1) as (g1 & A1 & I1 & R1 & C1).
  destruct (sim_run_empty n2 cap2 os H2) as (g2 & A2 & I2 & R2 & C2).
  exists g1, g2, (snd (srun sinit os)). split; [exact A1|]. split; [exact A2|].
  split; [rewrite <- (keys_agree _ _ R1), <- (keys_agree _ _ R2); reflexivity|].
  intros v Pv. set (s := fst (srun sinit os)) in *.
  assert (Ps : s_present s v = true) by (rewrite (r_pres R1); exact Pv).
  split; [rewrite <- (r_edges R1 v Ps), <- (r_edges R2 v Ps); reflexivity|].
  pose proof (r_data R1 v Ps) as D1. pose proof (r_data R2 v Ps) as D2.
  pose proof (r_unread R1 v Ps) as U1. pose proof (r_unread R2 v Ps) as U2.
  unfold has_data, is_stored in *.
  destruct (prs g1 v) eqn:P1; destruct (prs g2 v) eqn:P2; cbn [pers_eqb negb] in *.
  all: try (split; [reflexivity|]).
  all: try congruence.
Qed.

(** a sequence that fits the smaller configuration gives the same answers under every larger one *)
Corollary config_larger n1 cap1 n2 cap2 os :
  n1 <= n2 -> cap1 <= cap2 -> within_limits n1 cap1 sinit os ->
  exists g1 g2 rs,
    run n1 (op_empty cap1) os = Ok (g1, rs) /\ run n2 (op_empty cap2) os = Ok (g2, rs)
    /\ op_keys g1 = op_keys g2.
Proof.
  intros Hn Hc H1. pose proof (within_limits_mono n1 n2 cap1 cap2 Hn Hc os sinit H1) as H2.
  destruct (config_independent n1 cap1 n2 cap2 os H1 H2) as (g1 & g2 & rs & A & B & C & _).
  exists g1, g2, rs. auto.
Qed.

(** the model is a function: replaying a sequence gives the identical trace *)
Lemma replay_deterministic n g os r1 r2 : run n g os = r1 -> run n g os = r2 -> r1 = r2.
Proof. congruence. Qed.

(** ** C07: overruns stop with a panic before any slot is touched *)

Lemma add_out_of_range g v : cap_of g <= v -> op_add g v = Panic PBoundary.
Proof. intros H. unfold op_add. rewrite chk_v_panic by exact H. reflexivity. Qed.

Lemma put_out_of_range g v d : cap_of g <= v -> op_put g v d = Panic PBoundary.
Proof. intros H. unfold op_put. rewrite chk_v_panic by exact H. reflexivity. Qed.

Lemma data_out_of_range g v : cap_of g <= v -> op_data g v = Panic PBoundary.
Proof. intros H. unfold op_data. rewrite chk_v_panic by exact H. reflexivity. Qed.

Lemma kid_out_of_range g v a : cap_of g <= v -> op_kid g v a = Panic PBoundary.
Proof. intros H. unfold op_kid. rewrite chk_v_panic by exact H. reflexivity. Qed.

Lemma kids_out_of_range g v : cap_of g <= v -> op_kids g v = Panic PBoundary.
Proof. intros H. unfold op_kids. rewrite chk_v_panic by exact H. reflexivity. Qed.

Lemma bind_out_of_range n g v1 v2 a :
  cap_of g <= v1 \/ cap_of g <= v2 -> op_bind n g v1 v2 a = Panic PBoundary.
Proof.
  intros H. unfold op_bind. destruct (Nat.lt_ge_cases v1 (cap_of g)) as [L|L].
  - rewrite chk_v_ok by exact L. cbn [obind]. destruct H as [H|H]; [lia|].
    rewrite chk_v_panic by exact H. reflexivity.
  - rewrite chk_v_panic by exact L. reflexivity.
Qed.

(** the (N+1)-th distinct label on a vertex *)
Lemma bind_label_overflow n g v1 v2 a :
  v1 < cap_of g -> v2 < cap_of g -> mm_get (edg g v1) a = None -> n <= length (edg g v1) ->
  op_bind n g v1 v2 a = Panic PMapFull.
Proof.
  intros L1 L2 Hg Hl. unfold op_bind. rewrite !chk_v_ok by assumption. cbn [obind].
  unfold mm_insert. rewrite (proj2 (mm_replace_none _ _ _) Hg).
  destruct (Nat.ltb_spec (length (edg g v1)) n); [lia|]. reflexivity.
Qed.

(** the 17th member of a group: an ungrouped vertex bound to a member of a full group *)
Lemma bind_group_overflow n g v1 v2 a :
  Inv n g -> tag g v1 <> 0 -> tag g v2 <> 0 -> room n g v1 a ->
  ((tag g v1 = 1 /\ 2 <= tag g v2 /\ length (members g (tag g v2)) = 16)
   \/ (2 <= tag g v1 /\ tag g v2 = 1 /\ length (members g (tag g v1)) = 16)) ->
  op_bind n g v1 v2 a = Panic PStackFull.
Proof.
  intros HI T1 T2 Hr Hfull.
  pose proof (tag_nonzero_lt g v1 T1) as L1. pose proof (tag_nonzero_lt g v2 T2) as L2.
  destruct (mm_insert_ok n (edg g v1) a v2 Hr) as (e' & Hi & _).
  unfold op_bind. rewrite !chk_v_ok by assumption. cbn [obind]. rewrite Hi. cbn [obind].
  unfold BRANCH_STATIC.
  destruct Hfull as [(E1 & G2 & Hl)|(G1 & E2 & Hl)].
  - rewrite E1. cbn [Nat.eqb]. destruct (Nat.eqb_spec (tag g v2) 1); [lia|].
    unfold push_member. pose proof (i_tag HI v2) as Lt.
    rewrite chk_b_ok by (sodg_rw; rewrite ?(i_nb HI), ?(i_ns HI); exact Lt). cbn [obind].
    sodg_rw. rewrite Hl. reflexivity.
  - destruct (Nat.eqb_spec (tag g v1) 1); [lia|]. rewrite tag_set_edges, E2. cbn [Nat.eqb].
    unfold push_member. pose proof (i_tag HI v1) as Lt.
    rewrite chk_b_ok by (sodg_rw; rewrite ?(i_nb HI), ?(i_ns HI); exact Lt). cbn [obind].
    sodg_rw. rewrite Hl. reflexivity.
Qed.

(** the first thing every call evaluates is the bound check on its vertex
    argument(s): a [Panic PBoundary] is decided before any slot is read *)
Lemma step_boundary_first n g o :
  match o with
  | OAdd v | OPut v _ | OData v | OKid v _ | OKids v => cap_of g <= v
  | OBind v1 v2 _ => cap_of g <= v1 \/ cap_of g <= v2
  | _ => False
  end -> step n g o = Panic PBoundary.
Proof.
  destruct o as [v|v1 v2 a|v d|v| |v a|v|]; cbn [step]; intros H.
  - rewrite add_out_of_range by exact H. reflexivity.
  - rewrite bind_out_of_range by exact H. reflexivity.
  - rewrite put_out_of_range by exact H. reflexivity.
  - rewrite data_out_of_range by exact H. reflexivity.
  - destruct H.
  - rewrite kid_out_of_range by exact H. reflexivity.
  - rewrite kids_out_of_range by exact H. reflexivity.
  - destruct H.
Qed.

(** bounds discipline: in every invariant state, every index the model hands
    to a container is inside that container *)
Lemma bounds_discipline n g :
  Inv n g ->
  (forall v, tag g v < nb g /\ tag g v < ns g)
  /\ (forall b m, 2 <= b -> b < 16 -> In m (members g b) -> m < cap_of g)
  /\ (forall b, 2 <= b -> b < 16 -> length (members g b) <= 16)
  /\ (forall v, length (edg g v) <= n)
  /\ g_next g <= cap_of g.
Proof.
  intros HI. split; [|split; [|split; [|split]]].
  - intros v. rewrite (i_nb HI), (i_ns HI). pose proof (i_tag HI v). lia.
  - intros b m H1 H2 Hm. apply (i_mem HI b m H1 H2) in Hm. apply tag_nonzero_lt. lia.
  - intros b H1 H2. apply (i_len HI b H1 H2).
  - intros v. apply (i_edges HI v).
  - apply (i_next HI).
Qed.
