(** * XShow: a flattening of a run of the model into a list of numbers.

    Used only to cross-check the extraction: the same function is evaluated
    inside Coq ([Eval vm_compute], on op lists written as Coq terms by
    tools/xcheck.py) and by the extracted OCaml code (on the same op files,
    parsed by the driver); the two number lists must be equal. *)

From Sodg Require Export Spec.

Definition nn (x : nat) : N := N.of_nat x.

Definition show_hex (h : hex) : list N :=
  match h with
  | HVector l => 0%N :: nn (length l) :: l
  | HBytes a k => 1%N :: nn k :: nn (length a) :: a
  end.

Definition show_label (l : label) : list N :=
  match l with
  | Greek c => [0%N; c]
  | Alpha i => [1%N; i]
  | LStr cs => 2%N :: nn (length cs) :: cs
  end.

Definition show_edges (e : edges) : list N :=
  nn (length e) :: concat (map (fun x : label * nat => show_label (fst x) ++ [nn (snd x)]) e).

Definition show_vertex (x : vertex) : list N :=
  nn (v_branch x) :: (match v_pers x with PEmpty => 0 | PStored => 1 | PTaken => 2 end)%N
  :: show_hex (v_data x) ++ show_edges (v_edges x).

Definition show_state (g : sodg) : list N :=
  nn (length (g_vertices g)) :: nn (g_next g)
  :: concat (map show_vertex (g_vertices g))
  ++ nn (length (g_branches g)) :: concat (map (fun m => nn (length m) :: map nn m) (g_branches g))
  ++ nn (length (g_stores g)) :: map nn (g_stores g).

Definition show_res (r : res) : list N :=
  match r with
  | RUnit => [0%N]
  | RData None => [1%N]
  | RData (Some h) => 2%N :: show_hex h
  | RId v => [3%N; nn v]
  | RKid None => [4%N]
  | RKid (Some v) => [5%N; nn v]
  | RKids e => 6%N :: show_edges e
  | RKeys l => 7%N :: nn (length l) :: map nn l
  end.

(** results and final state of a run; a panic shows as [999] followed by the
    number of calls that succeeded *)
Fixpoint xrun (n : nat) (g : sodg) (os : list op) (acc : list N) (done : nat) : list N :=
  match os with
  | [] => acc ++ 1000%N :: show_state g
  | o :: t =>
      match step n g o with
      | Ok (g', r) => xrun n g' t (acc ++ show_res r) (S done)
      | _ => acc ++ 999%N :: nn done :: show_state g
      end
  end.

Definition xshow_run (n cap : nat) (os : list op) : list N := xrun n (op_empty cap) os [] 0.
