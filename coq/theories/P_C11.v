(** * C11  merge of two trees

    Property text: if both graphs are trees of present vertices,
    g.merge(&h, left, right) returns Ok and afterwards every labelled path
    from [right] in h exists from [left] in g and ends in a vertex carrying
    the same data bytes, distinct h vertices landing on distinct g vertices;
    h itself is unchanged.  Everything g had before is still there, only edges
    and data demanded by h are added, and exactly one new vertex is created
    per h path that g lacked, under an id that was not present.  Afterwards g
    keeps obeying C01-C03 as if the additions had been made by add/bind/put.
    Quantifier: every pair of trees whose result stays within the capacity
    limits.

    Reading guide.  [s] is the left graph (Rust: g, mutated), [h] the right
    graph.  [h] is an immutable value of the functional model and is not
    returned by [op_merge]: it is unchanged by construction.
    [op_merge n s h left right] models [s.merge(&h, left, right)] with result
    [Ok (s', None)] for Rust's [Ok(())] and [Ok (s', Some missed)] for the
    [Err] naming the present right vertices that were not reached (C12);
    [op_merge_mapped] is the same call returning the final [mapped] table
    [m] ([C12_def_op_merge] in P_C12.v), [map_get m u] is the left vertex the
    right vertex [u] was mapped to.
    [tree] is a finite tree of vertex ids with labelled kids; [ids T] its
    vertices in pre-order, [tsize T] their number, [maxdeg T] the largest
    number of kids of a node.  [embeds g T]: every node of [T] is a present
    vertex of [g] whose edges are exactly, in order, the labelled kids of the
    node, and no vertex occurs twice in [T] -- the part of [g] reachable from
    [root T] is the tree [T].  The left graph may contain anything else
    besides [U]; the right graph may contain other present vertices besides
    [T] (then the verdict is the error of C12, see [C11_ok]).
    [fits n s U T] is a sufficient condition for "stays within the capacity
    limits", see [C11_def_fits].  IT IS NOT NECESSARY: the theorems below
    cover the pairs of trees with at most 16 vertices in total (present
    vertices of the left graph plus vertices of [T]), enough absent ids at or
    above the allocator position, and room for [maxdeg T] more labels at every
    vertex of [U]; larger merges that the crate would still carry out without
    a panic are outside the quantifier of this file (see the report).  [path g v p w]: following the labels [p]
    from [v] with [kid] leads to [w].  [Inv n g] is the representation
    invariant of Inv.v.  The proofs are in TreeFacts.v and MergeTreeFacts.v
    (and MergeFacts.v for C11_as_calls). *)

From Sodg Require Import BuildFacts.
From Sodg Require Import MergeTreeFacts.

(** ** the definitions the statements use, unfolded *)

Theorem C11_def_ids : forall i ks, ids (Node i ks) = i :: ids_kids ks.
Proof. exact ids_node. Qed.
Check C11_def_ids : forall i ks, ids (Node i ks) = i :: ids_kids ks.
Print Assumptions C11_def_ids.

Theorem C11_def_ids_kids : forall ks v,
  In v (ids_kids ks) <-> exists a t, In (a, t) ks /\ In v (ids t).
Proof. exact ids_kids_spec. Qed.
Check C11_def_ids_kids : forall ks v,
  In v (ids_kids ks) <-> exists a t, In (a, t) ks /\ In v (ids t).
Print Assumptions C11_def_ids_kids.

Theorem C11_def_tsize : forall T, tsize T = length (ids T).
Proof. exact tsize_ids. Qed.
Check C11_def_tsize : forall T, tsize T = length (ids T).
Print Assumptions C11_def_tsize.

Theorem C11_def_maxdeg : forall i ks,
  maxdeg (Node i ks) = Nat.max (length ks) (maxdeg_kids ks).
Proof. exact maxdeg_node. Qed.
Check C11_def_maxdeg : forall i ks,
  maxdeg (Node i ks) = Nat.max (length ks) (maxdeg_kids ks).
Print Assumptions C11_def_maxdeg.

Theorem C11_def_emb : forall g i ks,
  emb g (Node i ks) <->
  tag g i <> 0
  /\ edg g i = map (fun p : label * tree => (fst p, root (snd p))) ks
  /\ forall a t, In (a, t) ks -> emb g t.
Proof. exact emb_node. Qed.
Check C11_def_emb : forall g i ks,
  emb g (Node i ks) <->
  tag g i <> 0
  /\ edg g i = map (fun p : label * tree => (fst p, root (snd p))) ks
  /\ forall a t, In (a, t) ks -> emb g t.
Print Assumptions C11_def_emb.

Theorem C11_def_embeds : forall g T, embeds g T <-> emb g T /\ NoDup (ids T).
Proof. exact embeds_unfold. Qed.
Check C11_def_embeds : forall g T, embeds g T <-> emb g T /\ NoDup (ids T).
Print Assumptions C11_def_embeds.

(** an embedded tree is all that can be reached from its root *)
Theorem C11_embeds_reach : forall g T,
  emb g T -> forall u, In u (ids T) <-> reach ptrue g (root T) u.
Proof. exact emb_reach_iff. Qed.
Check C11_embeds_reach : forall g T,
  emb g T -> forall u, In u (ids T) <-> reach ptrue g (root T) u.
Print Assumptions C11_embeds_reach.

Theorem C11_def_fits : forall n s U T,
  fits n s U T <->
  length (op_keys s) + tsize T <= 16
  /\ tsize T <= S (length (filter (fun v => (tag s v =? 0) && (g_next s <=? v)) (iota (cap_of s))))
  /\ (forall v, In v (ids U) -> length (edg s v) + maxdeg T <= n).
Proof. exact fits_unfold. Qed.
Check C11_def_fits : forall n s U T,
  fits n s U T <->
  length (op_keys s) + tsize T <= 16
  /\ tsize T <= S (length (filter (fun v => (tag s v =? 0) && (g_next s <=? v)) (iota (cap_of s))))
  /\ (forall v, In v (ids U) -> length (edg s v) + maxdeg T <= n).
Print Assumptions C11_def_fits.

Theorem C11_def_tree_hyps : forall n s h left right U T,
  tree_hyps n s h left right U T <->
  Inv n s /\ Inv n h /\ embeds s U /\ root U = left /\ embeds h T /\ root T = right
  /\ fits n s U T.
Proof. exact tree_hyps_unfold. Qed.
Check C11_def_tree_hyps : forall n s h left right U T,
  tree_hyps n s h left right U T <->
  Inv n s /\ Inv n h /\ embeds s U /\ root U = left /\ embeds h T /\ root T = right
  /\ fits n s U T.
Print Assumptions C11_def_tree_hyps.

Theorem C11_def_path : forall g v p w,
  path g v p w <->
  match p with
  | [] => v = w
  | a :: r => exists x, op_kid g v a = (_ <- chk_v g v ;; Ok (Some x))
                        /\ mm_get (edg g v) a = Some x /\ path g x r w
  end.
Proof. exact path_unfold. Qed.
Check C11_def_path : forall g v p w,
  path g v p w <->
  match p with
  | [] => v = w
  | a :: r => exists x, op_kid g v a = (_ <- chk_v g v ;; Ok (Some x))
                        /\ mm_get (edg g v) a = Some x /\ path g x r w
  end.
Print Assumptions C11_def_path.

Theorem C11_def_calls : forall n s s',
  calls n s s' <-> exists ops rs, Forall prim_op ops /\ run n s ops = Ok (s', rs).
Proof. exact calls_unfold. Qed.
Check C11_def_calls : forall n s s',
  calls n s s' <-> exists ops rs, Forall prim_op ops /\ run n s ops = Ok (s', rs).
Print Assumptions C11_def_calls.

Theorem C11_def_prim_op : forall o,
  prim_op o <-> match o with OAdd _ | OBind _ _ _ | OPut _ _ | ONext => True | _ => False end.
Proof. exact prim_op_unfold. Qed.
Check C11_def_prim_op : forall o,
  prim_op o <-> match o with OAdd _ | OBind _ _ _ | OPut _ _ | ONext => True | _ => False end.
Print Assumptions C11_def_prim_op.

(** ** 1. the call returns (no panic, no [join()], no fuel problem), with the
    verdict C12 dictates: Ok(()) exactly when [h] has no present vertex
    outside [T]; the invariant and the capacity are kept *)

Theorem C11_ok : forall n s h left right U T,
  tree_hyps n s h left right U T ->
  exists s' m,
    op_merge_mapped n s h left right = Ok (s', m)
    /\ op_merge n s h left right = Ok (s', verdict h m)
    /\ (verdict h m = None <-> forall v, tag h v <> 0 -> In v (ids T))
    /\ Inv n s' /\ cap_of s' = cap_of s.
Proof. exact merge_trees_ok. Qed.
Check C11_ok : forall n s h left right U T,
  tree_hyps n s h left right U T ->
  exists s' m,
    op_merge_mapped n s h left right = Ok (s', m)
    /\ op_merge n s h left right = Ok (s', verdict h m)
    /\ (verdict h m = None <-> forall v, tag h v <> 0 -> In v (ids T))
    /\ Inv n s' /\ cap_of s' = cap_of s.
Print Assumptions C11_ok.

(** the mapping is defined exactly on the vertices of [T], and sends [right] to [left] *)
Theorem C11_total : forall n s h left right U T s' m,
  tree_hyps n s h left right U T -> op_merge_mapped n s h left right = Ok (s', m) ->
  forall u, In u (ids T) <-> map_get m u <> None.
Proof. exact cq_total. Qed.
Check C11_total : forall n s h left right U T s' m,
  tree_hyps n s h left right U T -> op_merge_mapped n s h left right = Ok (s', m) ->
  forall u, In u (ids T) <-> map_get m u <> None.
Print Assumptions C11_total.

Theorem C11_root : forall n s h left right U T s' m,
  tree_hyps n s h left right U T -> op_merge_mapped n s h left right = Ok (s', m) ->
  map_get m right = Some left.
Proof. exact cq_root. Qed.
Check C11_root : forall n s h left right U T s' m,
  tree_hyps n s h left right U T -> op_merge_mapped n s h left right = Ok (s', m) ->
  map_get m right = Some left.
Print Assumptions C11_root.

(** ** 2. paths and data *)

Theorem C11_paths : forall n s h left right U T s' m,
  tree_hyps n s h left right U T -> op_merge_mapped n s h left right = Ok (s', m) ->
  forall p u, path h right p u -> exists x, map_get m u = Some x /\ path s' left p x.
Proof. exact cq_paths. Qed.
Check C11_paths : forall n s h left right U T s' m,
  tree_hyps n s h left right U T -> op_merge_mapped n s h left right = Ok (s', m) ->
  forall p u, path h right p u -> exists x, map_get m u = Some x /\ path s' left p x.
Print Assumptions C11_paths.

Theorem C11_data : forall n s h left right U T s' m,
  tree_hyps n s h left right U T -> op_merge_mapped n s h left right = Ok (s', m) ->
  forall u x, map_get m u = Some x -> has_data h u = true ->
              has_data s' x = true /\ dat s' x = dat h u.
Proof. exact cq_data. Qed.
Check C11_data : forall n s h left right U T s' m,
  tree_hyps n s h left right U T -> op_merge_mapped n s h left right = Ok (s', m) ->
  forall u x, map_get m u = Some x -> has_data h u = true ->
              has_data s' x = true /\ dat s' x = dat h u.
Print Assumptions C11_data.

(** ** 3. distinct right vertices land on distinct left vertices *)

Theorem C11_injective : forall n s h left right U T s' m,
  tree_hyps n s h left right U T -> op_merge_mapped n s h left right = Ok (s', m) ->
  forall u1 u2 v, map_get m u1 = Some v -> map_get m u2 = Some v -> u1 = u2.
Proof. exact cq_injective. Qed.
Check C11_injective : forall n s h left right U T s' m,
  tree_hyps n s h left right U T -> op_merge_mapped n s h left right = Ok (s', m) ->
  forall u1 u2 v, map_get m u1 = Some v -> map_get m u2 = Some v -> u1 = u2.
Print Assumptions C11_injective.

(** ** 4. frame *)

(** every vertex stays, every edge stays *)
Theorem C11_frame_kept : forall n s h left right U T s' m,
  tree_hyps n s h left right U T -> op_merge_mapped n s h left right = Ok (s', m) ->
  forall v, tag s v <> 0 ->
    tag s' v <> 0
    /\ forall a w, mm_get (edg s v) a = Some w -> mm_get (edg s' v) a = Some w.
Proof. exact cq_kept. Qed.
Check C11_frame_kept : forall n s h left right U T s' m,
  tree_hyps n s h left right U T -> op_merge_mapped n s h left right = Ok (s', m) ->
  forall v, tag s v <> 0 ->
    tag s' v <> 0
    /\ forall a w, mm_get (edg s v) a = Some w -> mm_get (edg s' v) a = Some w.
Print Assumptions C11_frame_kept.

(** an edge an old vertex has gained leads to a vertex that was absent *)
Theorem C11_frame_edges_added : forall n s h left right U T s' m,
  tree_hyps n s h left right U T -> op_merge_mapped n s h left right = Ok (s', m) ->
  forall v a x, tag s v <> 0 -> mm_get (edg s' v) a = Some x ->
                mm_get (edg s v) a = Some x \/ tag s x = 0.
Proof. exact cq_edges_added. Qed.
Check C11_frame_edges_added : forall n s h left right U T s' m,
  tree_hyps n s h left right U T -> op_merge_mapped n s h left right = Ok (s', m) ->
  forall v a x, tag s v <> 0 -> mm_get (edg s' v) a = Some x ->
                mm_get (edg s v) a = Some x \/ tag s x = 0.
Print Assumptions C11_frame_edges_added.

(** a vertex that is not the image of a right vertex keeps data, data state and edges *)
Theorem C11_frame_untouched : forall n s h left right U T s' m,
  tree_hyps n s h left right U T -> op_merge_mapped n s h left right = Ok (s', m) ->
  forall v, tag s v <> 0 -> (forall u, map_get m u <> Some v) ->
            dat s' v = dat s v /\ prs s' v = prs s v /\ edg s' v = edg s v.
Proof. exact cq_untouched. Qed.
Check C11_frame_untouched : forall n s h left right U T s' m,
  tree_hyps n s h left right U T -> op_merge_mapped n s h left right = Ok (s', m) ->
  forall v, tag s v <> 0 -> (forall u, map_get m u <> Some v) ->
            dat s' v = dat s v /\ prs s' v = prs s v /\ edg s' v = edg s v.
Print Assumptions C11_frame_untouched.

(** the images are vertices of [U] or vertices that were absent *)
Theorem C11_frame_image : forall n s h left right U T s' m,
  tree_hyps n s h left right U T -> op_merge_mapped n s h left right = Ok (s', m) ->
  forall v u, map_get m u = Some v ->
              tag s' v <> 0 /\ (In v (ids U) \/ (tag s v = 0 /\ g_next s <= v)).
Proof. exact cq_image. Qed.
Check C11_frame_image : forall n s h left right U T s' m,
  tree_hyps n s h left right U T -> op_merge_mapped n s h left right = Ok (s', m) ->
  forall v u, map_get m u = Some v ->
              tag s' v <> 0 /\ (In v (ids U) \/ (tag s v = 0 /\ g_next s <= v)).
Print Assumptions C11_frame_image.

(** hence nothing outside the subtree [U] changes *)
Theorem C11_frame_outside : forall n s h left right U T s' m,
  tree_hyps n s h left right U T -> op_merge_mapped n s h left right = Ok (s', m) ->
  forall v, tag s v <> 0 -> ~ In v (ids U) ->
            dat s' v = dat s v /\ prs s' v = prs s v /\ edg s' v = edg s v.
Proof. exact cq_outside. Qed.
Check C11_frame_outside : forall n s h left right U T s' m,
  tree_hyps n s h left right U T -> op_merge_mapped n s h left right = Ok (s', m) ->
  forall v, tag s v <> 0 -> ~ In v (ids U) ->
            dat s' v = dat s v /\ prs s' v = prs s v /\ edg s' v = edg s v.
Print Assumptions C11_frame_outside.

(** an old vertex that is the image of a right vertex without data keeps its data *)
Theorem C11_frame_nodata : forall n s h left right U T s' m,
  tree_hyps n s h left right U T -> op_merge_mapped n s h left right = Ok (s', m) ->
  forall u x, map_get m u = Some x -> has_data h u = false -> tag s x <> 0 ->
              dat s' x = dat s x /\ prs s' x = prs s x.
Proof. exact cq_nodata. Qed.
Check C11_frame_nodata : forall n s h left right U T s' m,
  tree_hyps n s h left right U T -> op_merge_mapped n s h left right = Ok (s', m) ->
  forall u x, map_get m u = Some x -> has_data h u = false -> tag s x <> 0 ->
              dat s' x = dat s x /\ prs s' x = prs s x.
Print Assumptions C11_frame_nodata.

(** ** 5. the new vertices *)

(** a vertex that is present afterwards and was absent before is the image of
    exactly one right vertex, and its id was at or above the allocator position *)
Theorem C11_fresh : forall n s h left right U T s' m,
  tree_hyps n s h left right U T -> op_merge_mapped n s h left right = Ok (s', m) ->
  forall v, tag s v = 0 -> tag s' v <> 0 ->
    g_next s <= v
    /\ exists u, In u (ids T) /\ map_get m u = Some v
                 /\ forall u', map_get m u' = Some v -> u' = u.
Proof. exact cq_new. Qed.
Check C11_fresh : forall n s h left right U T s' m,
  tree_hyps n s h left right U T -> op_merge_mapped n s h left right = Ok (s', m) ->
  forall v, tag s v = 0 -> tag s' v <> 0 ->
    g_next s <= v
    /\ exists u, In u (ids T) /\ map_get m u = Some v
                 /\ forall u', map_get m u' = Some v -> u' = u.
Print Assumptions C11_fresh.

(** a right vertex at the end of the label path [p]: if [s] had that path from
    [left] it is mapped to its end; if [s] lacked it, it is mapped to a vertex
    that was absent; it is mapped to an old vertex only if [s] had the path *)
Theorem C11_fresh_iff : forall n s h left right U T s' m,
  tree_hyps n s h left right U T -> op_merge_mapped n s h left right = Ok (s', m) ->
  forall p u x, path h right p u -> map_get m u = Some x ->
    (forall w, path s left p w -> w = x)
    /\ ((~ exists w, path s left p w) -> tag s x = 0 /\ g_next s <= x)
    /\ (tag s x <> 0 -> path s left p x).
Proof. exact cq_fresh_iff. Qed.
Check C11_fresh_iff : forall n s h left right U T s' m,
  tree_hyps n s h left right U T -> op_merge_mapped n s h left right = Ok (s', m) ->
  forall p u x, path h right p u -> map_get m u = Some x ->
    (forall w, path s left p w -> w = x)
    /\ ((~ exists w, path s left p w) -> tag s x = 0 /\ g_next s <= x)
    /\ (tag s x <> 0 -> path s left p x).
Print Assumptions C11_fresh_iff.

(** ** 6. merge is a sequence of add/bind/put/next_id calls -- for every run
    that returns, trees or not -- so that whatever is proved about histories
    of such calls (C01-C03) applies to the graph afterwards *)

Theorem C11_as_calls : forall n s h left right s' r,
  op_merge n s h left right = Ok (s', r) -> calls n s s'.
Proof. exact op_merge_calls. Qed.
Check C11_as_calls : forall n s h left right s' r,
  op_merge n s h left right = Ok (s', r) -> calls n s s'.
Print Assumptions C11_as_calls.

Theorem C11_as_calls_rec : forall n h f s left right m s' m',
  merge_rec f n h s left right m = Ok (s', m') -> calls n s s'.
Proof. exact merge_rec_calls. Qed.
Check C11_as_calls_rec : forall n h f s left right m s' m',
  merge_rec f n h s left right m = Ok (s', m') -> calls n s s'.
Print Assumptions C11_as_calls_rec.

(** ** non-vacuity *)

Definition ex11_d : hex := HVector [7%N].

(** left: 0 -a-> 1 and an unrelated vertex 5; right: 0 -a-> 1, 0 -b-> 2 with data on 2 *)
Definition ex11_s_ops : list op := [OAdd 0; OAdd 1; OAdd 5; OBind 0 1 (Alpha 0)].
Definition ex11_h_ops : list op :=
  [OAdd 0; OAdd 1; OAdd 2; OBind 0 1 (Alpha 0); OBind 0 2 (Alpha 1); OPut 2 ex11_d].
Definition ex11_s : sodg := build 16 8 ex11_s_ops.
Definition ex11_h : sodg := build 16 8 ex11_h_ops.
Definition ex11_U : tree := Node 0 [(Alpha 0, Node 1 [])].
Definition ex11_T : tree := Node 0 [(Alpha 0, Node 1 []); (Alpha 1, Node 2 [])].

Example C11_ex_hyps : tree_hyps 16 ex11_s ex11_h 0 0 ex11_U ex11_T.
Proof.
  split; [apply (build_inv 16 8 ex11_s_ops); vm_compute; reflexivity|].
  split; [apply (build_inv 16 8 ex11_h_ops); vm_compute; reflexivity|].
  split.
  { split; [vm_compute; repeat split; discriminate|].
    vm_compute. repeat constructor; cbn; intuition discriminate. }
  split; [reflexivity|]. split.
  { split; [vm_compute; repeat split; discriminate|].
    vm_compute. repeat constructor; cbn; intuition discriminate. }
  split; [reflexivity|].
  split; [vm_compute; lia|]. split; [vm_compute; lia|].
  intros v Hv. vm_compute in Hv. destruct Hv as [<-|[<-|[]]]; vm_compute; lia.
Qed.

(** the existing path a is found (1 -> 1), the lacking path b is grafted as
    the new vertex 2, which receives the data; vertex 5 is untouched *)
Example C11_ex_result :
  exists s',
    op_merge 16 ex11_s ex11_h 0 0 = Ok (s', None)
    /\ op_merge_mapped 16 ex11_s ex11_h 0 0 = Ok (s', [(2, 2); (1, 1); (0, 0)])
    /\ edg s' 0 = [(Alpha 0, 1); (Alpha 1, 2)]
    /\ tag ex11_s 2 = 0 /\ tag s' 2 <> 0 /\ dat s' 2 = ex11_d /\ has_data s' 2 = true
    /\ op_keys s' = [0; 1; 2; 5].
Proof. eexists. vm_compute. repeat split; discriminate. Qed.

Example C11_ex_path :
  path ex11_h 0 [Alpha 1] 2 /\ ~ exists w, path ex11_s 0 [Alpha 1] w.
Proof.
  split; [vm_compute; eauto|]. intros (w & x & H & _). vm_compute in H. discriminate.
Qed.
