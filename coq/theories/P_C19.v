(** * C19  Behaviour is deterministic and independent of N and capacity   (PARTIAL)

    "Replaying a call sequence yields identical results, including the
    enumeration order of kids() and the ids chosen by next_id() and merge().
    Two graphs created with different edge capacities N and vertex capacities
    give identical answers for every sequence that fits within the limits of
    both."

    The reference model never consults N or the capacity (they occur only in
    the limits predicate), and the model of the code refines it under every
    configuration (C02), so two configurations give the same answers:
    [C19_config_independent]; a sequence that fits the smaller configuration
    fits every larger one: [C19_limits_monotone], [C19_config_larger].  The
    answers include kids() (edge order) and next_id().  The model is a
    function, so replaying is deterministic by construction
    ([C19_replay_deterministic]); the only nondeterministic ingredient of the
    real code, hash-set iteration order in slice(), is a parameter of the model
    and the result does not depend on it up to the order of a list that is
    only used as a set ([C19_slice_order_irrelevant]).  Run-to-run determinism
    of the real process (hash seeds, allocator) is a runtime fact that is
    observed by the correspondence check (each history replayed in several
    processes and configurations), not proved: this property is labelled
    partial in DESIGN.md section 12. *)

From Sodg Require Import Limits SliceFacts.
From Coq Require Import Permutation.

Theorem C19_config_independent :
  forall n1 cap1 n2 cap2 os,
  within_limits n1 cap1 sinit os -> within_limits n2 cap2 sinit os ->
  exists g1 g2 rs,
    run n1 (op_empty cap1) os = Ok (g1, rs) /\ run n2 (op_empty cap2) os = Ok (g2, rs)
    /\ op_keys g1 = op_keys g2
    /\ (forall v, present g1 v = true ->
          edg g1 v = edg g2 v /\ prs g1 v = prs g2 v /\ (prs g1 v <> PEmpty -> dat g1 v = dat g2 v)).
Proof. exact config_independent. Qed.

Check C19_config_independent :
  forall n1 cap1 n2 cap2 os,
  within_limits n1 cap1 sinit os -> within_limits n2 cap2 sinit os ->
  exists g1 g2 rs,
    run n1 (op_empty cap1) os = Ok (g1, rs) /\ run n2 (op_empty cap2) os = Ok (g2, rs)
    /\ op_keys g1 = op_keys g2
    /\ (forall v, present g1 v = true ->
          edg g1 v = edg g2 v /\ prs g1 v = prs g2 v /\ (prs g1 v <> PEmpty -> dat g1 v = dat g2 v)).
Print Assumptions C19_config_independent.

Theorem C19_limits_monotone :
  forall n1 n2 cap1 cap2, n1 <= n2 -> cap1 <= cap2 ->
  forall os s, within_limits n1 cap1 s os -> within_limits n2 cap2 s os.
Proof. exact within_limits_mono. Qed.

Check C19_limits_monotone :
  forall n1 n2 cap1 cap2, n1 <= n2 -> cap1 <= cap2 ->
  forall os s, within_limits n1 cap1 s os -> within_limits n2 cap2 s os.
Print Assumptions C19_limits_monotone.

Theorem C19_config_larger :
  forall n1 cap1 n2 cap2 os,
  n1 <= n2 -> cap1 <= cap2 -> within_limits n1 cap1 sinit os ->
  exists g1 g2 rs,
    run n1 (op_empty cap1) os = Ok (g1, rs) /\ run n2 (op_empty cap2) os = Ok (g2, rs)
    /\ op_keys g1 = op_keys g2.
Proof. exact config_larger. Qed.

Check C19_config_larger :
  forall n1 cap1 n2 cap2 os,
  n1 <= n2 -> cap1 <= cap2 -> within_limits n1 cap1 sinit os ->
  exists g1 g2 rs,
    run n1 (op_empty cap1) os = Ok (g1, rs) /\ run n2 (op_empty cap2) os = Ok (g2, rs)
    /\ op_keys g1 = op_keys g2.
Print Assumptions C19_config_larger.

Theorem C19_replay_deterministic :
  forall n g os r1 r2,
  run n g os = r1 -> run n g os = r2 -> r1 = r2.
Proof. exact replay_deterministic. Qed.

Check C19_replay_deterministic :
  forall n g os r1 r2,
  run n g os = r1 -> run n g os = r2 -> r1 = r2.
Print Assumptions C19_replay_deterministic.

Theorem C19_slice_order_irrelevant :
  forall order1 order2 p g v d1 d2,
  (forall l, Permutation (order1 l) l) -> (forall l, Permutation (order2 l) l) ->
  pclosed p g v ->
  closure (cap_of g + 2) order1 p g [] [v] = Ok d1 ->
  closure (cap_of g + 2) order2 p g [] [v] = Ok d2 ->
  Permutation d1 d2.
Proof. exact closure_order_irrelevant. Qed.

Check C19_slice_order_irrelevant :
  forall order1 order2 p g v d1 d2,
  (forall l, Permutation (order1 l) l) -> (forall l, Permutation (order2 l) l) ->
  pclosed p g v ->
  closure (cap_of g + 2) order1 p g [] [v] = Ok d1 ->
  closure (cap_of g + 2) order2 p g [] [v] = Ok d2 ->
  Permutation d1 d2.
Print Assumptions C19_slice_order_irrelevant.


(** non-vacuity: one history, two configurations *)
Example C19_example :
  let os := [OAdd 0; OAdd 1; OBind 0 1 (Alpha 0); ONext; OPut 1 (HVector [1%N]); OKids 0; OData 1; OKeys] in
  run 1 (op_empty 3) os = Ok (fst (match run 1 (op_empty 3) os with Ok x => x | _ => (op_empty 0, []) end),
                              snd (match run 16 (op_empty 200) os with Ok x => x | _ => (op_empty 0, []) end)).
Proof. vm_compute. reflexivity. Qed.


