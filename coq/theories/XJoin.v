(** * XJoin: conservative extension of the model to [Sodg::join()] and to
    graphs whose vertex store has vacant slots ("holes").

    [merge()] of a right graph that is not a tree can call [join(left, right)]
    (src/merge.rs), which redirects edges, re-binds kids and finally does
    [self.vertices.remove(right)]: the slot of [right] becomes [None].  No
    other code ever refills a slot, so a hole stays a hole; what the rest of
    the crate does with it:

    - [vertices.get(v).unwrap()] / [get_mut(v).unwrap()] panics for a hole:
      [add], [bind] (both ends), [put], [data], [kid], [kids], the inner
      levels of [inspect], the traversal of [slice_some], the destruction
      loop of [data()] (the removed id stays in its group's member list);
    - [vertices.get(v).with_context(..)?] gives [Err] for a hole: [v_print],
      the first level of [inspect];
    - [vertices.iter()] silently skips holes: [keys], [len], [next_id],
      [to_xml], [to_dot], [Debug], the rebuild loop of [slice_some],
      [clone] (the copy has the same holes), [save] (the emap serializer
      writes the number of occupied slots and then only those).

    State of the extension: [xs] = the state of the existing model plus the
    list of holes.  The slot of a hole holds [blank] in [xg] (tag 0, no data,
    no edges), so every "iterate and skip absent vertices" function of the
    existing model does the right thing unchanged.  The primitive layer
    ([xa_*]) takes the hole list and the underlying state separately; with
    the hole list [[]] every one of them reduces to the existing operation
    (XJoinFacts.v).  A hole id is always below the capacity ([join] reads
    [kids(right)] before it removes [right]), so the order of the two checks
    "below the capacity" and "not a hole" cannot be observed; the hole check
    is written first where that makes the reduction definitional.

    This file is extracted and run against the crate; it contains no proofs. *)

From Sodg Require Export Sodg Print Slice Merge Serial Script.
From Sodg Require Export Export.

Record xs := mkX { xg : sodg; xh : list nat }.

(** a state of the existing model seen as an extended state with the holes [hs] *)
Definition xlift (hs : list nat) (o : outcome sodg) : outcome xs :=
  g <- o ;; Ok (mkX g hs).

Definition xlift2 {R} (hs : list nat) (o : outcome (sodg * R)) : outcome (xs * R) :=
  r <- o ;; Ok (mkX (fst r) hs, snd r).

Definition is_hole (x : xs) (v : nat) : bool := mem v (xh x).

(** [.unwrap()] of the [None] that [vertices.get(v)] answers for a hole *)
Definition chk_h (hs : list nat) (v : nat) : outcome unit :=
  if mem v hs then Panic PUnwrapNone else Ok tt.

(** ** primitive layer: hole list and underlying state given separately *)

(** [add(v)]: [self.vertices.get_mut(v1).unwrap()] *)
Definition xa_add (hs : list nat) (g : sodg) (v : nat) : outcome sodg :=
  _ <- chk_h hs v ;; op_add g v.

(** [bind(v1, v2, a)]: both ends are unwrapped before anything is written *)
Definition xa_bind (hs : list nat) (n : nat) (g : sodg) (v1 v2 : nat) (a : label) : outcome sodg :=
  _ <- chk_h hs v1 ;; _ <- chk_h hs v2 ;; op_bind n g v1 v2 a.

(** [put(v, d)] *)
Definition xa_put (hs : list nat) (g : sodg) (v : nat) (d : hex) : outcome sodg :=
  _ <- chk_h hs v ;; op_put g v d.

(** the destruction loop of [data()]: [self.vertices.get_mut(v).unwrap()] for
    every member of the group; a removed id is still listed *)
Fixpoint xa_kill (hs : list nat) (g : sodg) (ms : list nat) : outcome sodg :=
  match ms with
  | [] => Ok g
  | m :: t => _ <- chk_h hs m ;; _ <- chk_v g m ;; xa_kill hs (set_tag g m BRANCH_NONE) t
  end.

(** [data(v)]: [op_data] with the destruction loop above *)
Definition xa_data (hs : list nat) (g : sodg) (v : nat) : outcome (sodg * option hex) :=
  _ <- chk_h hs v ;;
  _ <- chk_v g v ;;
  let x := vtx g v in
  match v_pers x with
  | PStored =>
      let d := v_data x in
      let g1 := set_prs g v PTaken in
      let b := v_branch x in
      if b =? BRANCH_STATIC then Ok (g1, Some d)
      else
        _ <- chk_b g1 b ;;
        let s := store g1 b in
        if s =? 0 then Panic PUnderflow
        else
          let g2 := set_store g1 b (s - 1) in
          if s - 1 =? 0 then
            g3 <- xa_kill hs g2 (members g2 b) ;;
            Ok (set_members g3 b [], Some d)
          else Ok (g2, Some d)
  | PTaken => Ok (g, Some (v_data x))
  | PEmpty => Ok (g, None)
  end.

Definition xa_kids (hs : list nat) (g : sodg) (v : nat) : outcome edges :=
  _ <- chk_h hs v ;; op_kids g v.

Definition xa_kid (hs : list nat) (g : sodg) (v : nat) (a : label) : outcome (option nat) :=
  _ <- chk_h hs v ;; op_kid g v a.

(** [next_id()]: [vertices.iter()] does not yield the holes, so the search
    passes over them although nothing lives there *)
Definition xa_next_id (hs : list nat) (g : sodg) : outcome (sodg * nat) :=
  match find (fun v => negb (mem v hs) && ((tag g v =? 0) && (g_next g <=? v))) (iota (cap_of g)) with
  | None => Panic PUnwrapNone
  | Some id =>
      let next := id + 1 in
      Ok (if g_next g <? next then set_next g next else g, id)
  end.

(** *** slice_some: the traversal unwraps every vertex it takes from [todo] *)

Fixpoint xa_scan_batch (hs : list nat) (p : pred) (g : sodg) (before : list nat) (done todo : list nat)
  : outcome (list nat * list nat) :=
  match before with
  | [] => Ok (done, todo)
  | v :: rest =>
      let done1 := if mem v done then done else v :: done in
      _ <- chk_h hs v ;;
      _ <- chk_v g v ;;
      let '(done2, todo2) := scan_edges p v (edg g v) done1 todo in
      xa_scan_batch hs p g rest done2 todo2
  end.

Fixpoint xa_closure (hs : list nat) (fuel : nat) (order : list nat -> list nat) (p : pred) (g : sodg)
  (done todo : list nat) : outcome (list nat) :=
  match fuel with
  | O => OutOfFuel
  | S f =>
      match todo with
      | [] => Ok done
      | _ => r <- xa_scan_batch hs p g (order todo) done [] ;; xa_closure hs f order p g (fst r) (snd r)
      end
  end.

(** the rebuild loop iterates [vertices.iter()] filtered by [done]: a hole
    cannot be in [done] (the traversal would have panicked), the new graph is
    built from [empty(capacity)] and has no holes *)
Definition xa_slice_some (hs : list nat) (n : nat) (order : list nat -> list nat) (g : sodg) (v : nat)
  (p : pred) : outcome sodg :=
  done <- xa_closure hs (cap_of g + 2) order p g [] [v] ;;
  rebuild n g (op_empty (cap_of g)) done (iota (cap_of g)).

(** *** printers *)

(** [v_print(v)]: [get(v).with_context(..)?]: the boundary assertion panics,
    a hole gives [Err] ([None] here) *)
Definition xa_vprint (hs : list nat) (g : sodg) (v : nat) : outcome (option text) :=
  _ <- chk_v g v ;;
  if mem v hs then Ok None else t <- op_vprint g v ;; Ok (Some t).

(** [inspect_v]: below the first level the [Err] of a hole is unwrapped *)
Fixpoint xa_inspect_v (hs : list nat) (fuel : nat) (g : sodg) (depth : nat) (v : nat) (seen : list nat)
  : outcome (list iline * list nat) :=
  match fuel with
  | O => OutOfFuel
  | S f =>
      _ <- chk_h hs v ;;
      _ <- chk_v g v ;;
      (fix go (es : edges) (seen : list nat) (acc : list iline) {struct es}
         : outcome (list iline * list nat) :=
         match es with
         | [] => Ok (acc, seen)
         | (a, to) :: rest =>
             if mem to seen
             then go rest seen (acc ++ [mkIL depth v a to true])
             else
               r <- xa_inspect_v hs f g (S depth) to (to :: seen) ;;
               go rest (snd r) (acc ++ [mkIL depth v a to false] ++ fst r)
         end) (sort_edges (edg g v)) (v :: seen) []
  end.

(** [inspect(v)]: a hole at the first level is the [Err] of [inspect] itself *)
Definition xa_inspect (hs : list nat) (g : sodg) (v : nat) : outcome (option text) :=
  _ <- chk_v g v ;;
  if mem v hs then Ok None
  else r <- xa_inspect_v hs (cap_of g + 1) g 0 v [] ;; Ok (Some (render_inspect v (fst r))).

(** *** save: the emap serializer writes the number of occupied slots and
    then the occupied slots only ([stores] and [branches] never have holes) *)

Definition xa_enc_vertices (hs : list nat) (l : list vertex) : list N :=
  let kvs := filter (fun kv : nat * vertex => negb (mem (fst kv) hs)) (combine (iota (length l)) l) in
  enc_nat (length kvs)
  ++ concat (map (fun kv : nat * vertex => enc_nat (fst kv) ++ enc_vertex (snd kv)) kvs).

Definition xa_encode (hs : list nat) (g : sodg) : list N :=
  enc_emap enc_nat (g_stores g)
  ++ enc_emap enc_stack (g_branches g)
  ++ xa_enc_vertices hs (g_vertices g).

(** *** script: [Script.v] with the calls on the graph going through the
    primitive layer (the hole list does not change during a deployment) *)

Definition xa_parse_arg (hs : list nat) (vs : vars) (g : sodg) (s : text)
  : outcome (sres (vars * sodg * nat)) :=
  match s with
  | [] => Ok (SErr g)
  | head :: tail =>
      if (head =? ch_dollar)%N then
        match var_get vs tail with
        | Some v => Ok (SOk (vs, g, v))
        | None => r <- xa_next_id hs g ;; Ok (SOk ((tail, snd r) :: vs, fst r, snd r))
        end
      else if (head =? ch_nu)%N then
        match parse_usize tail with
        | Some n => Ok (SOk (vs, g, clamp_id g n))
        | None => Ok (SErr g)
        end
      else
        match parse_usize s with
        | Some n => Ok (SOk (vs, g, clamp_id g n))
        | None => Ok (SErr g)
        end
  end.

Definition xa_deploy_one (hs : list nat) (n : nat) (vs : vars) (g : sodg) (cmd : text)
  : outcome (sres (vars * sodg)) :=
  match parse_line cmd with
  | None => Ok (SErr g)
  | Some (name, raw) =>
      let args := fields ch_comma raw in
      if text_eqb name t_ADD then
        match args with
        | a1 :: _ =>
            r <- xa_parse_arg hs vs g a1 ;;
            match r with
            | SOk (vs1, g1, v) => g2 <- xa_add hs g1 v ;; Ok (SOk (vs1, g2))
            | SErr g' => Ok (SErr g')
            end
        | [] => Ok (SErr g)
        end
      else if text_eqb name t_BIND then
        match args with
        | a1 :: rest =>
            r <- xa_parse_arg hs vs g a1 ;;
            match r with
            | SOk (vs1, g1, v1) =>
                match rest with
                | a2 :: rest2 =>
                    r2 <- xa_parse_arg hs vs1 g1 a2 ;;
                    match r2 with
                    | SOk (vs2, g2, v2) =>
                        match rest2 with
                        | a3 :: _ =>
                            match label_from_str a3 with
                            | Some l => g3 <- xa_bind hs n g2 v1 v2 l ;; Ok (SOk (vs2, g3))
                            | None => Ok (SErr g2)
                            end
                        | [] => Ok (SErr g2)
                        end
                    | SErr g' => Ok (SErr g')
                    end
                | [] => Ok (SErr g1)
                end
            | SErr g' => Ok (SErr g')
            end
        | [] => Ok (SErr g)
        end
      else if text_eqb name t_PUT then
        match args with
        | a1 :: rest =>
            r <- xa_parse_arg hs vs g a1 ;;
            match r with
            | SOk (vs1, g1, v) =>
                match rest with
                | a2 :: _ =>
                    match parse_data a2 with
                    | Some d => g2 <- xa_put hs g1 v d ;; Ok (SOk (vs1, g2))
                    | None => Ok (SErr g1)
                    end
                | [] => Ok (SErr g1)
                end
            | SErr g' => Ok (SErr g')
            end
        | [] => Ok (SErr g)
        end
      else Ok (SErr g)
  end.

Fixpoint xa_deploy_cmds (hs : list nat) (n : nat) (vs : vars) (g : sodg) (cmds : list text) (pos : nat)
  : outcome (sodg * option nat) :=
  match cmds with
  | [] => Ok (g, Some pos)
  | c :: rest =>
      r <- xa_deploy_one hs n vs g c ;;
      match r with
      | SOk (vs1, g1) => xa_deploy_cmds hs n vs1 g1 rest (S pos)
      | SErr g' => Ok (g', None)
      end
  end.

Definition xa_deploy (hs : list nat) (n : nat) (g : sodg) (script : text) : outcome (sodg * option nat) :=
  xa_deploy_cmds hs n [] g (commands script) 0.

(** ** the operations on extended states (what the driver calls) *)

Definition x_empty (cap : nat) : xs := mkX (op_empty cap) [].

Definition x_add (x : xs) (v : nat) : outcome xs := xlift (xh x) (xa_add (xh x) (xg x) v).

Definition x_bind (n : nat) (x : xs) (v1 v2 : nat) (a : label) : outcome xs :=
  xlift (xh x) (xa_bind (xh x) n (xg x) v1 v2 a).

Definition x_put (x : xs) (v : nat) (d : hex) : outcome xs := xlift (xh x) (xa_put (xh x) (xg x) v d).

Definition x_data (x : xs) (v : nat) : outcome (xs * option hex) :=
  xlift2 (xh x) (xa_data (xh x) (xg x) v).

Definition x_kids (x : xs) (v : nat) : outcome edges := xa_kids (xh x) (xg x) v.

Definition x_kid (x : xs) (v : nat) (a : label) : outcome (option nat) := xa_kid (xh x) (xg x) v a.

(** [keys()], [len()]: the slot of a hole is blank in [xg], hence skipped *)
Definition x_keys (x : xs) : list nat := op_keys (xg x).

Definition x_len (x : xs) : nat := op_len (xg x).

Definition x_next_id (x : xs) : outcome (xs * nat) := xlift2 (xh x) (xa_next_id (xh x) (xg x)).

(** [clone()]: [emap::Map::clone] copies the occupied slots into a map of the
    same capacity filled with [None]: same holes *)
Definition x_clone (x : xs) : xs := x.

Definition x_slice_some (n : nat) (order : list nat -> list nat) (x : xs) (v : nat) (p : pred)
  : outcome xs :=
  xlift [] (xa_slice_some (xh x) n order (xg x) v p).

Definition x_slice (n : nat) (order : list nat -> list nat) (x : xs) (v : nat) : outcome xs :=
  x_slice_some n order x v (fun _ _ _ => true).

(** [Debug]/[Display], [to_xml], [to_dot] iterate the occupied slots and skip
    those with tag 0; the member lists are printed as they are *)
Definition x_debug (x : xs) : text := op_debug (xg x).
Definition x_to_xml (x : xs) : text := op_to_xml (xg x).
Definition x_to_dot (x : xs) : text := op_to_dot (xg x).

Definition x_vprint (x : xs) (v : nat) : outcome (option text) := xa_vprint (xh x) (xg x) v.
Definition x_inspect (x : xs) (v : nat) : outcome (option text) := xa_inspect (xh x) (xg x) v.

Definition x_encode (x : xs) : list N := xa_encode (xh x) (xg x).

Definition x_deploy (n : nat) (x : xs) (script : text) : outcome (xs * option nat) :=
  xlift2 (xh x) (xa_deploy (xh x) n (xg x) script).

(** ** join *)

(** the inner loop of the first half of [join()] for one vertex: [nv] is the
    clone, [orig] the edges being iterated; an edge that points to [right]
    is re-inserted into the clone under the same label with target [left]
    ([micromap::Map::insert]: the key exists, its value is replaced in place) *)
Fixpoint redirect (n : nat) (orig : edges) (nv : edges) (left right : nat) : outcome edges :=
  match orig with
  | [] => Ok nv
  | (a, t) :: rest =>
      if t =? right
      then nv' <- mm_insert n nv a left ;; redirect n rest nv' left right
      else redirect n rest nv left right
  end.

(** [for v in self.keys() { ...; self.vertices.insert(v, nv) }] *)
Fixpoint redirect_all (n : nat) (g : sodg) (left right : nat) (vs : list nat) : outcome sodg :=
  match vs with
  | [] => Ok g
  | v :: t =>
      e' <- redirect n (edg g v) (edg g v) left right ;;
      redirect_all n (set_edges g v e') left right t
  end.

(** [for e in kids { assert!(self.kid(left, e.0).is_none()); self.bind(left, e.1, e.0) }] *)
Fixpoint join_kids (n : nat) (x : xs) (left : nat) (es : edges) : outcome xs :=
  match es with
  | [] => Ok x
  | (a, t) :: rest =>
      k <- x_kid x left a ;;
      match k with
      | Some _ => Panic PAssert
      | None => x' <- x_bind n x left t a ;; join_kids n x' left rest
      end
  end.

(** [join(left, right)]: the slot of [right] becomes a hole; its id stays in
    its group's member list and the counters are not touched *)
Definition x_join (n : nat) (x : xs) (left right : nat) : outcome xs :=
  g1 <- redirect_all n (xg x) left right (x_keys x) ;;
  let x1 := mkX g1 (xh x) in
  es <- x_kids x1 right ;;
  x2 <- join_kids n x1 left es ;;
  Ok (mkX (set_vtx (xg x2) right blank) (right :: xh x2)).

(** ** merge *)

(** second loop of [merge_rec]: a disagreement calls [join] *)
Fixpoint x_check_joins (n : nat) (x : xs) (left : nat) (m : mapping) (es : edges) : outcome xs :=
  match es with
  | [] => Ok x
  | (a, to) :: rest =>
      r <- x_kid x left a ;;
      match r, map_get m to with
      | Some first, Some second =>
          if first =? second then x_check_joins n x left m rest
          else x' <- x_join n x first second ;; x_check_joins n x' left m rest
      | _, _ => x_check_joins n x left m rest
      end
  end.

(** the choice of the left vertex matched with a kid of [right] *)
Definition x_attach (n : nat) (x : xs) (left : nat) (a : label) (k mt : option nat)
  : outcome (xs * nat) :=
  match k with
  | Some t => Ok (x, t)
  | None =>
      match mt with
      | Some t => x' <- x_bind n x left t a ;; Ok (x', t)
      | None =>
          r <- x_next_id x ;;
          x' <- x_add (fst r) (snd r) ;;
          x'' <- x_bind n x' left (snd r) a ;;
          Ok (x'', snd r)
      end
  end.

Section XGo.
  Variable rec : xs -> nat -> nat -> mapping -> outcome (xs * mapping).
  Variable n : nat.
  Variable left : nat.

  (** first loop of [merge_rec] *)
  Fixpoint x_mgo (es : edges) (x : xs) (m : mapping) {struct es} : outcome (xs * mapping) :=
    match es with
    | [] => Ok (x, m)
    | (a, to) :: rest =>
        k <- x_kid x left a ;;
        sm <- x_attach n x left a k (map_get m to) ;;
        r <- rec (fst sm) (snd sm) to m ;;
        x_mgo rest (fst r) (snd r)
    end.
End XGo.

(** [merge_rec]; [x] is the left graph (mutated), [g] the right graph (it may
    have holes of its own: [g.vertices.get(right).unwrap()], [g.kids(right)]) *)
Fixpoint x_merge_rec (fuel : nat) (n : nat) (g : xs) (x : xs) (left right : nat) (m : mapping)
  : outcome (xs * mapping) :=
  match fuel with
  | O => OutOfFuel
  | S f =>
      match map_get m right with
      | Some _ => Ok (x, m)
      | None =>
          let m1 := (right, left) :: m in
          _ <- chk_h (xh g) right ;;
          _ <- chk_v (xg g) right ;;
          x1 <- (if has_data (xg g) right then x_put x left (dat (xg g) right) else Ok x) ;;
          es <- x_kids g right ;;
          r <- x_mgo (x_merge_rec f n g) n left es x1 m1 ;;
          x2 <- x_check_joins n (fst r) left (snd r) es ;;
          Ok (x2, snd r)
      end
  end.

(** [merge(g, left, right)] *)
Definition x_merge (n : nat) (s g : xs) (left right : nat) : outcome (xs * option (list nat)) :=
  r <- x_merge_rec (cap_of (xg g) + 2) n g s left right [] ;;
  let seen := dedup_keys (snd r) in
  let must := x_keys g in
  if length seen =? length must
  then Ok (fst r, None)
  else Ok (fst r, Some (filter (fun v => negb (mem v seen)) must)).
