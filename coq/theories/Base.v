(** * Base: outcome monad, list helpers shared by the whole model.

    Everything here is executable and axiom-free.  No proofs about the sodg
    model live in this file, only definitions and generic list lemmas. *)

From Coq Require Export List Arith NArith ZArith Lia Bool.
Export ListNotations.

Set Implicit Arguments.

(** Kinds of panic of the debug build that the model distinguishes.  Only
    "panic or not" is compared with the implementation, the kind is for the
    reader and for the C07 theorems. *)
Inductive pkind :=
| PBoundary    (* emap: "The key K is over the boundary C" (debug assertion) *)
| PStackFull   (* microstack: "No more space left in the stack" *)
| PMapFull     (* micromap: "No more key-value slot available in the map" *)
| PUnderflow   (* "attempt to subtract with overflow" *)
| PUnwrapNone  (* Option::unwrap() on None *)
| PIndex       (* slice / array index or range out of bounds *)
| PAssert.     (* explicit assert! / panic! in the crate *)

(** Result of a modelled call.  [OutOfFuel] is a model artefact (a loop that
    did not finish within the fuel the model gave it); every theorem that
    mentions a fuelled function proves it unreachable.  [Unmodelled] marks the
    one code path deliberately left out of the model ([Sodg::join], reached
    only when [merge] is given a right operand that is not a tree). *)
Inductive outcome (A : Type) :=
| Ok (a : A)
| Panic (k : pkind)
| OutOfFuel
| Unmodelled.

Arguments Ok {A} a.
Arguments Panic {A} k.
Arguments OutOfFuel {A}.
Arguments Unmodelled {A}.

Definition obind {A B} (x : outcome A) (f : A -> outcome B) : outcome B :=
  match x with
  | Ok a => f a
  | Panic k => Panic k
  | OutOfFuel => OutOfFuel
  | Unmodelled => Unmodelled
  end.

Notation "x <- e ;; f" := (obind e (fun x => f))
  (at level 61, e at next level, right associativity).

Definition is_ok {A} (x : outcome A) : bool :=
  match x with Ok _ => true | _ => false end.

Definition is_panic {A} (x : outcome A) : bool :=
  match x with Panic _ => true | _ => false end.

(** ** list update *)

Fixpoint upd {A} (l : list A) (i : nat) (x : A) : list A :=
  match l, i with
  | [], _ => []
  | _ :: t, O => x :: t
  | h :: t, S j => h :: upd t j x
  end.

Lemma upd_length A (l : list A) i x : length (upd l i x) = length l.
Proof. revert i; induction l as [|h t IH]; intros [|j]; simpl; auto. Qed.

Lemma nth_upd_eq A (l : list A) i x d : i < length l -> nth i (upd l i x) d = x.
Proof.
  revert i; induction l as [|h t IH]; intros [|j] H; simpl in *; try lia; auto.
  apply IH; lia.
Qed.

Lemma nth_upd_neq A (l : list A) i j x d : i <> j -> nth j (upd l i x) d = nth j l d.
Proof.
  revert i j; induction l as [|h t IH]; intros [|i] [|j] H; simpl; auto; try lia.
Qed.

Lemma nth_upd A (l : list A) i j x d :
  nth j (upd l i x) d = if (Nat.eqb i j && Nat.ltb i (length l))%bool then x else nth j l d.
Proof.
  destruct (Nat.eqb_spec i j) as [->|Hne]; simpl.
  - destruct (Nat.ltb_spec j (length l)) as [Hlt|Hge].
    + apply nth_upd_eq; auto.
    + rewrite !nth_overflow; auto. rewrite upd_length; auto.
  - apply nth_upd_neq; auto.
Qed.

Lemma upd_overflow A (l : list A) i x : length l <= i -> upd l i x = l.
Proof.
  revert i; induction l as [|h t IH]; intros [|j] H; simpl in *; auto; try lia.
  f_equal; apply IH; lia.
Qed.

(** index of the first element satisfying [p], scanning from position 0 *)
Fixpoint find_index {A} (p : A -> bool) (l : list A) : option nat :=
  match l with
  | [] => None
  | h :: t => if p h then Some 0 else option_map S (find_index p t)
  end.

Lemma find_index_some A (p : A -> bool) l i d :
  find_index p l = Some i ->
  i < length l /\ p (nth i l d) = true /\ forall j, j < i -> p (nth j l d) = false.
Proof.
  revert i; induction l as [|h t IH]; simpl; intros i H; [discriminate|].
  destruct (p h) eqn:Hp.
  - inversion H; subst. repeat split; auto; try lia; intros j Hj; lia.
  - destruct (find_index p t) as [k|] eqn:Hk; simpl in H; [|discriminate].
    inversion H; subst. destruct (IH k eq_refl) as (H1 & H2 & H3).
    repeat split; auto; try lia; intros [|j] Hj; auto; apply H3; lia.
Qed.

Lemma find_index_none A (p : A -> bool) l d :
  find_index p l = None -> forall j, j < length l -> p (nth j l d) = false.
Proof.
  induction l as [|h t IH]; simpl; intros H j Hj; [lia|].
  destruct (p h) eqn:Hp; [discriminate|].
  destruct (find_index p t); simpl in H; [discriminate|].
  destruct j; auto. apply IH; auto; lia.
Qed.

Definition isnil {A} (l : list A) : bool := match l with [] => true | _ => false end.

Fixpoint list_eqb {A} (eqb : A -> A -> bool) (l1 l2 : list A) : bool :=
  match l1, l2 with
  | [], [] => true
  | a :: t1, b :: t2 => eqb a b && list_eqb eqb t1 t2
  | _, _ => false
  end.

Lemma list_eqb_spec A (eqb : A -> A -> bool) :
  (forall a b, eqb a b = true <-> a = b) ->
  forall l1 l2, list_eqb eqb l1 l2 = true <-> l1 = l2.
Proof.
  intros H l1; induction l1 as [|a t IH]; intros [|b t2]; simpl; split; intros E;
    try discriminate; auto.
  - apply andb_true_iff in E as [E1 E2]. apply H in E1. apply IH in E2. congruence.
  - inversion E; subst. apply andb_true_iff; split; [apply H | apply IH]; auto.
Qed.

Definition mem (x : nat) (l : list nat) : bool := existsb (Nat.eqb x) l.

(** ascending list [0; 1; ...; n-1] *)
Definition iota (n : nat) : list nat := seq 0 n.
