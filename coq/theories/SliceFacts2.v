(** * SliceFacts2: the rebuild loop of [slice_some] never panics, keeps the
    representation invariant, and builds exactly the sub-graph induced by the
    kept vertices -- second half of property C13.

    The kept set [done] is any duplicate-free list of at most 16 slots of the
    source, closed under nothing in particular; SliceFacts.v shows that the
    closure loop delivers the set reachable from the start vertex. *)

From Sodg Require Export SliceFacts Inv Shape.

Lemma pclosed_unfold p g v :
  pclosed p g v <->
  v < cap_of g /\
  forall u a w, reach p g v u -> In (a, w) (edg g u) -> p u w a = true -> w < cap_of g.
Proof. unfold pclosed. tauto. Qed.

(** ** what [bind] does inside its concrete precondition, in one statement *)

(** every group slot is empty or has at least two members (groups are created
    with two members and only grow); not part of [Inv], needed for counting
    the free slots *)
Definition grp2 (g : sodg) : Prop :=
  forall b, 2 <= b -> b < 16 -> members g b = [] \/ 2 <= length (members g b).

Lemma bind_effect n g v1 v2 a :
  Inv n g -> cpre n g (OBind v1 v2 a) ->
  exists g', op_bind n g v1 v2 a = Ok g' /\ Inv n g' /\ cap_of g' = cap_of g
    /\ (forall w, tag g' w = 0 <-> tag g w = 0)
    /\ (forall w, prs g' w = prs g w)
    /\ (forall w, edg g' w = if w =? v1 then spec_insert (edg g v1) a v2 else edg g w)
    /\ (grp2 g -> grp2 g').
Proof.
  intros HI Hc. destruct (inv_bind n g v1 v2 a HI Hc) as (g2 & A2 & I2).
  destruct Hc as (T1 & T2 & Hne & Hr & Huu & Hug & Hgu).
  pose proof (tag_nonzero_lt g v1 T1) as L1. pose proof (tag_nonzero_lt g v2 T2) as L2.
  pose proof (i_nb HI) as Hnb. pose proof (i_ns HI) as Hns.
  exists g2. split; [exact A2|]. split; [exact I2|].
  destruct (Nat.eq_dec (tag g v1) 1) as [E1|N1]; destruct (Nat.eq_dec (tag g v2) 1) as [E2|N2].
  - destruct (Huu E1 E2) as (b & Hf).
    destruct (first_empty_group n g b HI Hf) as (Hb1 & Hb2 & Hmb).
    destruct (bind_uu n g v1 v2 a b L1 L2 Hnb Hns E1 E2 Hr Hf) as (g' & A & T & P & D & E & M & S & X).
    rewrite A in A2. injection A2 as <-. destruct X as [X1 X2 X3 X4].
    split; [exact X1|]. split; [|split; [exact P|split; [exact E|]]].
    + intros w. rewrite T.
      destruct (Nat.eqb_spec w v1) as [->|]; cbn [orb]; [lia|].
      destruct (Nat.eqb_spec w v2) as [->|]; [lia|tauto].
    + intros G c H1 H2. rewrite M. destruct (c =? b); [right; cbn; lia | apply G; assumption].
  - pose proof (i_tag HI v2) as Lt.
    destruct (bind_ug n g v1 v2 a L1 L2 Hnb Hns E1 N2 Lt Hr (Hug E1 N2)) as (g' & A & T & P & D & E & M & S & X).
    rewrite A in A2. injection A2 as <-. destruct X as [X1 X2 X3 X4].
    split; [exact X1|]. split; [|split; [exact P|split; [exact E|]]].
    + intros w. rewrite T. destruct (Nat.eqb_spec w v1) as [->|]; [lia|tauto].
    + intros G c H1 H2. rewrite M. destruct (Nat.eqb_spec c (tag g v2)) as [->|]; [|apply G; assumption].
      right. rewrite app_length. cbn [length].
      assert (Hin : In v2 (members g (tag g v2))) by (apply (i_mem HI); auto).
      destruct (members g (tag g v2)); [destruct Hin | cbn [length]; lia].
  - pose proof (i_tag HI v1) as Lt.
    destruct (bind_gu n g v1 v2 a L1 L2 Hnb Hns N1 E2 Lt Hr (Hgu N1 E2)) as (g' & A & T & P & D & E & M & S & X).
    rewrite A in A2. injection A2 as <-. destruct X as [X1 X2 X3 X4].
    split; [exact X1|]. split; [|split; [exact P|split; [exact E|]]].
    + intros w. rewrite T. destruct (Nat.eqb_spec w v2) as [->|]; [lia|tauto].
    + intros G c H1 H2. rewrite M. destruct (Nat.eqb_spec c (tag g v1)) as [->|]; [|apply G; assumption].
      right. rewrite app_length. cbn [length].
      assert (Hin : In v1 (members g (tag g v1))) by (apply (i_mem HI); auto).
      destruct (members g (tag g v1)); [destruct Hin | cbn [length]; lia].
  - destruct (bind_gg n g v1 v2 a L1 L2 N1 N2 Hr) as (g' & A & T & P & D & E & M & S & X).
    rewrite A in A2. injection A2 as <-. destruct X as [X1 X2 X3 X4].
    split; [exact X1|]. split; [|split; [exact P|split; [exact E|]]].
    + intros w. rewrite T. tauto.
    + intros G c H1 H2. rewrite M. apply G; assumption.
Qed.

(** ** counting: room in the group tables when at most 16 vertices are present *)

Lemma nodup_concat_members n g bs :
  Inv n g -> NoDup bs -> (forall b, In b bs -> 2 <= b /\ b < 16) ->
  NoDup (concat (map (members g) bs)).
Proof.
  intros HI. induction bs as [|b t IH]; intros Hnd Hr; cbn [map concat]; [constructor|].
  inversion Hnd as [|? ? Hb Ht]; subst.
  destruct (Hr b (or_introl eq_refl)) as [B1 B2].
  apply nodup_app.
  - apply (i_nodup HI); assumption.
  - apply IH; auto. intros c Hc. apply Hr. right; exact Hc.
  - intros x Hx Hy. apply (i_mem HI b x B1 B2) in Hx.
    apply in_concat in Hy as (l & Hl & Hxl). apply in_map_iff in Hl as (c & <- & Hc).
    destruct (Hr c (or_intror Hc)) as [C1 C2].
    apply (i_mem HI c x C1 C2) in Hxl. apply Hb. congruence.
Qed.

Lemma concat_members_length g bs :
  (forall b, In b bs -> 2 <= length (members g b)) ->
  2 * length bs <= length (concat (map (members g) bs)).
Proof.
  induction bs as [|b t IH]; intros H; cbn [map concat length]; [lia|].
  rewrite app_length. specialize (H b (or_introl eq_refl)) as Hb.
  assert (IH' : 2 * length t <= length (concat (map (members g) t))).
  { apply IH. intros c Hc. apply H. right; exact Hc. }
  lia.
Qed.

(** two present ungrouped vertices, at most 16 present vertices in all: a
    group slot is free *)
Lemma free_slot_count n g ps v1 v2 :
  Inv n g -> grp2 g -> NoDup ps -> (forall w, tag g w <> 0 -> In w ps) -> length ps <= 16 ->
  tag g v1 = 1 -> tag g v2 = 1 -> v1 <> v2 ->
  exists b, first_empty g = Some b.
Proof.
  intros HI G2 Hnd Hps Hlen T1 T2 Hne.
  destruct (first_empty g) as [b|] eqn:F; [eauto|]. exfalso.
  assert (Hnonempty : forall b, b < 16 -> members g b <> []).
  { intros b Hb E. unfold first_empty in F.
    pose proof (@find_index_none _ isnil (g_branches g) (@nil nat) F b) as Q.
    fold (nb g) in Q. rewrite (i_nb HI) in Q. specialize (Q Hb).
    fold (members g b) in Q. rewrite E in Q. discriminate. }
  set (bs := seq 2 14).
  assert (Hbs : forall b, In b bs -> 2 <= b /\ b < 16).
  { intros b Hb. apply in_seq in Hb. lia. }
  set (L := concat (map (members g) bs)).
  assert (HL : NoDup L) by (apply (nodup_concat_members n); auto; apply seq_NoDup).
  assert (Hlen2 : 2 * length bs <= length L).
  { apply concat_members_length. intros b Hb. destruct (Hbs b Hb) as [B1 B2].
    destruct (G2 b B1 B2) as [E|E]; [exfalso; apply (Hnonempty b B2 E) | exact E]. }
  assert (Htag : forall x, In x L -> 2 <= tag g x).
  { intros x Hx. apply in_concat in Hx as (l & Hl & Hxl). apply in_map_iff in Hl as (c & <- & Hc).
    destruct (Hbs c Hc) as [C1 C2]. apply (i_mem HI c x C1 C2) in Hxl. lia. }
  assert (Hall : NoDup (v1 :: v2 :: L)).
  { constructor; [|constructor; [|exact HL]].
    - intros [H|H]; [congruence|]. apply Htag in H. lia.
    - intros H. apply Htag in H. lia. }
  assert (Hincl : incl (v1 :: v2 :: L) ps).
  { intros x [<-|[<-|Hx]]; apply Hps; try lia. apply Htag in Hx. lia. }
  pose proof (NoDup_incl_length Hall Hincl) as Q. cbn [length] in Q.
  unfold bs in Hlen2. rewrite seq_length in Hlen2. lia.
Qed.

(** a present ungrouped vertex, at most 16 present vertices: every group has
    room for one more member *)
Lemma group_room n g ps x t :
  Inv n g -> NoDup ps -> (forall w, tag g w <> 0 -> In w ps) -> length ps <= 16 ->
  tag g x = 1 -> 2 <= t -> t < 16 -> length (members g t) < 16.
Proof.
  intros HI Hnd Hps Hlen Tx H1 H2.
  assert (Hall : NoDup (x :: members g t)).
  { constructor; [|apply (i_nodup HI); assumption].
    intros H. apply (i_mem HI t x H1 H2) in H. lia. }
  assert (Hincl : incl (x :: members g t) ps).
  { intros y [<-|Hy]; apply Hps; [lia|]. apply (i_mem HI t y H1 H2) in Hy. lia. }
  pose proof (NoDup_incl_length Hall Hincl) as Q. cbn [length] in Q. lia.
Qed.

(** ** small facts *)

Lemma prs_empty cap v : prs (op_empty cap) v = PEmpty.
Proof.
  unfold prs, vtx, op_empty; cbn [g_vertices]. rewrite nth_repeat_any.
  destruct (v <? cap); reflexivity.
Qed.

Lemma spec_insert_fresh e k v : ~ In k (map fst e) -> spec_insert e k v = e ++ [(k, v)].
Proof.
  intros H. unfold spec_insert.
  assert (R : mm_replace e k v = None).
  { apply mm_replace_none. destruct (mm_get e k) eqn:G; [|reflexivity].
    exfalso. apply H. apply mm_get_in_keys. congruence. }
  rewrite R. reflexivity.
Qed.

Lemma mem_cons w x l : mem w (x :: l) = (w =? x) || mem w l.
Proof. reflexivity. Qed.

(** the edges of a vertex that survive: those whose target is kept *)
Definition keep (done : list nat) (es : edges) : edges :=
  filter (fun e : label * nat => mem (snd e) done) es.

Lemma keep_app done l1 l2 : keep done (l1 ++ l2) = keep done l1 ++ keep done l2.
Proof. apply filter_app. Qed.

Lemma keep_keys done es k : In k (map fst (keep done es)) -> In k (map fst es).
Proof.
  intros H. apply in_map_iff in H as (e & <- & He). apply filter_In in He as [He _].
  apply in_map. exact He.
Qed.

Lemma keep_length done es : length (keep done es) <= length es.
Proof.
  unfold keep. induction es as [|e t IH]; cbn [filter length]; [lia|].
  destruct (mem (snd e) done); cbn [length]; lia.
Qed.

(** ** the rebuild loop *)

Section Rebuild.
  Variable n : nat.
  Variable g : sodg.
  Variable done : list nat.
  Hypothesis Hg : Inv n g.
  Hypothesis Hnd : NoDup done.
  Hypothesis Hlen : length done <= 16.
  Hypothesis Hlt : forall x, In x done -> x < cap_of g.
  (** no kept vertex has an edge to itself: [bind] requires distinct ends *)
  Hypothesis Hnoself : forall u a, In u done -> ~ In (a, u) (edg g u).

  (** what holds of the graph under construction at every moment *)
  Record rb (ng : sodg) : Prop := {
    rb_inv : Inv n ng;
    rb_grp2 : grp2 ng;
    rb_cap : cap_of ng = cap_of g;
    rb_prs : forall w, prs ng w = PEmpty;
    rb_pres : forall w, tag ng w <> 0 -> In w done;
    rb_abs : forall w, tag ng w = 0 -> edg ng w = []
  }.

  Lemma rb_empty : rb (op_empty (cap_of g)).
  Proof.
    split.
    - apply inv_empty.
    - intros b H1 _. left. rewrite members_empty. destruct (b <? 2) eqn:E; [|reflexivity].
      apply Nat.ltb_lt in E. lia.
    - apply cap_empty.
    - apply prs_empty.
    - intros w H. rewrite tag_empty in H. congruence.
    - intros w _. apply edg_empty.
  Qed.

  Lemma add_rb ng x :
    rb ng -> In x done ->
    exists ng1, op_add ng x = Ok ng1 /\ rb ng1
      /\ (forall w, edg ng1 w = edg ng w)
      /\ tag ng1 x <> 0
      /\ (forall w, tag ng w <> 0 -> tag ng1 w <> 0).
  Proof.
    intros [RI RG RC RP RS RA] Hx.
    assert (Hxc : x < cap_of ng) by (rewrite RC; apply Hlt; exact Hx).
    destruct (add_effect ng x Hxc) as (ng1 & A & T & P & D & E & M & S & X).
    destruct (inv_add n ng x RI Hxc) as (ng1' & A' & I'). rewrite A in A'. injection A' as <-.
    exists ng1. split; [exact A|].
    assert (Ee : forall w, edg ng1 w = edg ng w).
    { intros w. rewrite E. destruct (Nat.eqb_spec w x) as [->|]; cbn [andb]; auto.
      destruct (Nat.eqb_spec (tag ng x) 0) as [Z|]; auto. symmetry. apply RA. exact Z. }
    split; [|split; [exact Ee|split]].
    - split.
      + exact I'.
      + intros b H1 H2. rewrite M. apply RG; assumption.
      + destruct X as [X1 _ _ _]. rewrite X1. exact RC.
      + intros w. rewrite P. destruct ((w =? x) && (tag ng x =? 0)); [reflexivity|apply RP].
      + intros w. rewrite T. destruct (Nat.eqb_spec w x) as [->|]; cbn [andb].
        * intros _. exact Hx.
        * apply RS.
      + intros w. rewrite T, Ee. destruct ((w =? x) && (tag ng x =? 0)); [discriminate|apply RA].
    - rewrite T, Nat.eqb_refl. cbn [andb]. destruct (Nat.eqb_spec (tag ng x) 0); [discriminate|assumption].
    - intros w Hw. rewrite T. destruct ((w =? x) && (tag ng x =? 0)); [discriminate|exact Hw].
  Qed.

  (** the loop over the edges of [v1]; [pre] are the edges already handled *)
  Lemma rebuild_edges_ok v1 : In v1 done ->
    forall es pre ng,
      edg g v1 = pre ++ es ->
      rb ng -> tag ng v1 <> 0 -> edg ng v1 = keep done pre ->
      exists ng', rebuild_edges n ng done v1 es = Ok ng' /\ rb ng'
        /\ (forall w, tag ng w <> 0 -> tag ng' w <> 0)
        /\ (forall w, w <> v1 -> edg ng' w = edg ng w)
        /\ edg ng' v1 = keep done (edg g v1).
  Proof.
    intros Hv1. induction es as [|[k v2] rest IH]; intros pre ng Hsplit R T1 E1.
    - exists ng. cbn [rebuild_edges]. rewrite app_nil_r in Hsplit. subst pre.
      split; [reflexivity|]. split; [exact R|]. split; [auto|]. split; [auto|exact E1].
    - cbn [rebuild_edges].
      assert (Hsplit' : edg g v1 = (pre ++ [(k, v2)]) ++ rest) by (rewrite <- app_assoc; exact Hsplit).
      destruct (mem v2 done) eqn:M2.
      + apply mem_In in M2.
        destruct (add_rb ng v2 R M2) as (ng1 & A1 & R1 & Ee1 & T2 & Tm1). rewrite A1. cbn [obind].
        assert (T1' : tag ng1 v1 <> 0) by (apply Tm1; exact T1).
        assert (Hin : In (k, v2) (edg g v1)) by (rewrite Hsplit; apply in_or_app; right; left; reflexivity).
        assert (Hne : v1 <> v2) by (intros ->; apply (Hnoself v2 k M2 Hin)).
        assert (Hk : ~ In k (map fst (keep done pre))).
        { intros H. apply keep_keys in H.
          destruct (i_edges Hg v1) as [Nd _]. rewrite Hsplit, map_app in Nd. cbn [map fst] in Nd.
          apply NoDup_remove_2 in Nd. apply Nd. apply in_or_app. left; exact H. }
        destruct R1 as [RI RG RC RP RS RA].
        assert (Hc : cpre n ng1 (OBind v1 v2 k)).
        { cbn [cpre]. split; [exact T1'|]. split; [exact T2|]. split; [exact Hne|].
          split; [|split; [|split]].
          - right. rewrite Ee1, E1. destruct (i_edges Hg v1) as [_ Ln].
            pose proof (keep_length done pre) as Lk.
            rewrite Hsplit, app_length in Ln. cbn [length] in Ln. lia.
          - intros U1 U2. apply (free_slot_count n ng1 done v1 v2); auto.
          - intros U1 U2. pose proof (i_tag RI v2) as Lt.
            apply (group_room n ng1 done v1); auto. lia.
          - intros U1 U2. pose proof (i_tag RI v1) as Lt.
            apply (group_room n ng1 done v2); auto. lia. }
        destruct (bind_effect n ng1 v1 v2 k RI Hc) as (ng2 & A2 & I2 & C2 & Z2 & P2 & E2 & G2).
        rewrite A2. cbn [obind].
        assert (E2v : edg ng2 v1 = keep done (pre ++ [(k, v2)])).
        { rewrite E2, Nat.eqb_refl, Ee1, E1, keep_app. rewrite spec_insert_fresh by exact Hk.
          f_equal. unfold keep. cbn [filter snd]. apply mem_In in M2. rewrite M2. reflexivity. }
        destruct (IH (pre ++ [(k, v2)]) ng2 Hsplit') as (ng' & A' & R' & Tm' & Fr' & Ev'); auto.
        { split.
          - exact I2.
          - apply G2. exact RG.
          - rewrite C2. exact RC.
          - intros w. rewrite P2. apply RP.
          - intros w Hw. apply RS. intros Z. apply Hw. apply Z2. exact Z.
          - intros w Hw. apply Z2 in Hw. rewrite E2.
            destruct (Nat.eqb_spec w v1) as [->|]; [contradiction|]. apply RA. exact Hw. }
        { intros Z. apply Z2 in Z. contradiction. }
        exists ng'. split; [exact A'|]. split; [exact R'|]. split; [|split; [|exact Ev']].
        * intros w Hw. apply Tm'. intros Z. apply Z2 in Z. apply (Tm1 w Hw). exact Z.
        * intros w Hw. rewrite (Fr' w Hw), E2.
          apply Nat.eqb_neq in Hw. rewrite Hw. apply Ee1.
      + apply (IH (pre ++ [(k, v2)]) ng Hsplit' R T1).
        rewrite keep_app, E1. unfold keep at 3. cbn [filter snd]. rewrite M2. rewrite app_nil_r. reflexivity.
  Qed.

  (** the edges slot [w] is to have once the vertices selected by [pb] are done *)
  Definition expect (pb : bool) (w : nat) : edges :=
    if mem w done && pb then keep done (edg g w) else [].

  Lemma rebuild_ok : forall vs procd ng,
    NoDup vs -> (forall x, In x vs -> ~ In x procd) ->
    rb ng ->
    (forall w, In w done -> In w procd -> tag ng w <> 0) ->
    (forall w, edg ng w = expect (mem w procd) w) ->
    exists ng', rebuild n g ng done vs = Ok ng' /\ rb ng'
      /\ (forall w, In w done -> In w vs \/ In w procd -> tag ng' w <> 0)
      /\ (forall w, edg ng' w = expect (mem w vs || mem w procd) w).
  Proof.
    induction vs as [|v1 rest IH]; intros procd ng Hvs Hfresh R Tp Ep.
    - exists ng. cbn [rebuild]. split; [reflexivity|]. split; [exact R|]. split.
      + intros w Hd [[]|Hp]. apply Tp; assumption.
      + intros w. rewrite Ep. reflexivity.
    - cbn [rebuild]. inversion Hvs as [|? ? Hv1 Hrest]; subst.
      assert (Hfresh' : forall x, In x rest -> ~ In x (v1 :: procd)).
      { intros x Hx [<-|Hp]; [contradiction|]. apply (Hfresh x (or_intror Hx) Hp). }
      assert (Hmem : forall w, mem w (v1 :: rest) || mem w procd = mem w rest || mem w (v1 :: procd)).
      { intros w. rewrite !mem_cons. destruct (w =? v1), (mem w rest); reflexivity. }
      destruct (mem v1 done) eqn:M1.
      + apply mem_In in M1.
        destruct (add_rb ng v1 R M1) as (ng1 & A1 & R1 & Ee1 & T1 & Tm1). rewrite A1. cbn [obind].
        assert (Hnp : mem v1 procd = false).
        { apply mem_false. apply Hfresh. left; reflexivity. }
        destruct (rebuild_edges_ok v1 M1 (edg g v1) [] ng1 eq_refl R1 T1) as (ng2 & A2 & R2 & Tm2 & Fr2 & Ev2).
        { rewrite Ee1, Ep. unfold expect. rewrite Hnp, andb_false_r. reflexivity. }
        rewrite A2. cbn [obind].
        destruct (IH (v1 :: procd) ng2 Hrest Hfresh' R2) as (ng' & A' & R' & T' & E').
        * intros w Hd [<-|Hp]; [apply Tm2; exact T1|]. apply Tm2, Tm1, Tp; assumption.
        * intros w. destruct (Nat.eq_dec w v1) as [->|Hne].
          -- rewrite Ev2, mem_cons, Nat.eqb_refl. unfold expect. apply mem_In in M1. rewrite M1.
             reflexivity.
          -- rewrite (Fr2 w Hne), Ee1, Ep, mem_cons.
             apply Nat.eqb_neq in Hne. rewrite Hne. reflexivity.
        * exists ng'. split; [exact A'|]. split; [exact R'|]. split.
          -- intros w Hd Hw. apply T'; [exact Hd|].
             destruct Hw as [[<-|Hw]|Hw];
               [right; left; reflexivity | left; exact Hw | right; right; exact Hw].
          -- intros w. rewrite E', Hmem. reflexivity.
      + destruct (IH (v1 :: procd) ng Hrest Hfresh' R) as (ng' & A' & R' & T' & E').
        * intros w Hd [<-|Hp]; [|apply Tp; assumption].
          apply mem_false in M1. contradiction.
        * intros w. rewrite Ep, mem_cons.
          destruct (Nat.eqb_spec w v1) as [->|]; [|reflexivity].
          unfold expect. rewrite M1. reflexivity.
        * exists ng'. split; [exact A'|]. split; [exact R'|]. split.
          -- intros w Hd Hw. apply T'; [exact Hd|].
             destruct Hw as [[<-|Hw]|Hw];
               [right; left; reflexivity | left; exact Hw | right; right; exact Hw].
          -- intros w. rewrite E', Hmem. reflexivity.
  Qed.

  (** the whole rebuild, from the empty graph over all slots in ascending order *)
  Lemma rebuild_all :
    exists ng, rebuild n g (op_empty (cap_of g)) done (iota (cap_of g)) = Ok ng
      /\ Inv n ng /\ cap_of ng = cap_of g
      /\ (forall w, tag ng w <> 0 <-> In w done)
      /\ (forall w, edg ng w = if mem w done then keep done (edg g w) else [])
      /\ (forall w, prs ng w = PEmpty).
  Proof.
    destruct (rebuild_ok (iota (cap_of g)) [] (op_empty (cap_of g))) as (ng & A & R & T & E).
    - apply seq_NoDup.
    - intros x _ [].
    - exact rb_empty.
    - intros w _ [].
    - intros w. rewrite edg_empty. unfold expect. cbn [mem existsb]. rewrite andb_false_r. reflexivity.
    - exists ng. destruct R as [RI RG RC RP RS RA].
      split; [exact A|]. split; [exact RI|]. split; [exact RC|]. split; [|split; [|exact RP]].
      + intros w. split; [apply RS|]. intros Hd. apply T; auto. left.
        unfold iota. apply in_seq. specialize (Hlt w Hd). lia.
      + intros w. rewrite E. unfold expect. cbn [mem existsb]. rewrite orb_false_r.
        destruct (mem w done) eqn:Md; [|reflexivity].
        assert (Hi : mem w (iota (cap_of g)) = true).
        { apply mem_In. unfold iota. apply in_seq. apply mem_In in Md. specialize (Hlt w Md). lia. }
        fold (mem w (iota (cap_of g))). rewrite Hi. reflexivity.
  Qed.
End Rebuild.

(** ** [slice_some] end to end *)

(** The general statement, with the bound 16 on the number of kept vertices
    (the capacity of one group; see [slice_chain_17] for why it cannot be 17).
    [kept] is the characteristic function of the kept set. *)
Theorem slice_some_correct_16 n order p g v :
  Inv n g -> (forall l, Permutation (order l) l) -> pclosed p g v ->
  (forall rs, NoDup rs -> (forall u, In u rs -> reach p g v u) -> length rs <= 16) ->
  (forall u a, reach p g v u -> ~ In (a, u) (edg g u)) ->
  exists ng (kept : nat -> bool),
    op_slice_some n order g v p = Ok ng
    /\ Inv n ng /\ cap_of ng = cap_of g
    /\ (forall w, kept w = true <-> reach p g v w)
    /\ (forall w, tag ng w <> 0 <-> reach p g v w)
    /\ (forall w, edg ng w =
                  if kept w then filter (fun e : label * nat => kept (snd e)) (edg g w) else [])
    /\ (forall w, prs ng w = PEmpty).
Proof.
  intros Hg Ho Hc Hb Hs.
  destruct (closure_correct order p g v Ho Hc) as (done & Ecl & Nd & Hr).
  assert (Hlen : length done <= 16) by (apply Hb; [exact Nd | intros u Hu; apply Hr; exact Hu]).
  assert (Hlt : forall x, In x done -> x < cap_of g).
  { intros x Hx. eapply pclosed_reach_lt; [exact Hc | apply Hr; exact Hx]. }
  assert (Hns : forall u a, In u done -> ~ In (a, u) (edg g u)).
  { intros u a Hu. apply Hs. apply Hr. exact Hu. }
  destruct (rebuild_all n g done Hg Nd Hlen Hlt Hns) as (ng & A & I & C & T & E & P).
  exists ng, (fun w => mem w done).
  unfold op_slice_some. rewrite Ecl. cbn [obind].
  split; [exact A|]. split; [exact I|]. split; [exact C|]. split; [|split; [|split; [exact E | exact P]]].
  - intros w. rewrite mem_In. apply Hr.
  - intros w. rewrite T. apply Hr.
Qed.

(** the form of the property text: at most 14 kept vertices *)
Theorem slice_some_correct n order p g v :
  Inv n g -> (forall l, Permutation (order l) l) -> pclosed p g v ->
  (forall rs, NoDup rs -> (forall u, In u rs -> reach p g v u) -> length rs <= 14) ->
  (forall u a, reach p g v u -> ~ In (a, u) (edg g u)) ->
  exists ng,
    op_slice_some n order g v p = Ok ng
    /\ Inv n ng /\ cap_of ng = cap_of g
    /\ (forall w, tag ng w <> 0 <-> reach p g v w)
    /\ (exists kept : nat -> bool,
          (forall w, kept w = true <-> reach p g v w)
          /\ forall w, edg ng w =
                       if kept w then filter (fun e : label * nat => kept (snd e)) (edg g w) else [])
    /\ (forall w, prs ng w = PEmpty).
Proof.
  intros Hg Ho Hc Hb Hs.
  assert (Hb16 : forall rs, NoDup rs -> (forall u, In u rs -> reach p g v u) -> length rs <= 16).
  { intros rs N H. specialize (Hb rs N H). lia. }
  destruct (slice_some_correct_16 n order p g v Hg Ho Hc Hb16 Hs) as (ng & kept & A & I & C & K & T & E & P).
  exists ng. split; [exact A|]. split; [exact I|]. split; [exact C|]. split; [exact T|].
  split; [|exact P]. exists kept. split; assumption.
Qed.

(** the edges of the slice, as a set *)
Lemma slice_some_edges n order p g v ng :
  Inv n g -> (forall l, Permutation (order l) l) -> pclosed p g v ->
  (forall rs, NoDup rs -> (forall u, In u rs -> reach p g v u) -> length rs <= 14) ->
  (forall u a, reach p g v u -> ~ In (a, u) (edg g u)) ->
  op_slice_some n order g v p = Ok ng ->
  forall w a t,
    In (a, t) (edg ng w) <-> reach p g v w /\ In (a, t) (edg g w) /\ reach p g v t.
Proof.
  intros Hg Ho Hc Hb Hs A w a t.
  destruct (slice_some_correct n order p g v Hg Ho Hc Hb Hs) as (ng' & A' & _ & _ & _ & (kept & K & E) & _).
  rewrite A in A'. injection A' as <-.
  rewrite E. destruct (kept w) eqn:Kw.
  - rewrite filter_In. cbn [snd]. rewrite !K. apply K in Kw. tauto.
  - split; [intros []|]. intros (Hw & _). apply K in Hw. congruence.
Qed.

Lemma slice_some_accepted_edges_kept n order p g v ng :
  Inv n g -> (forall l, Permutation (order l) l) -> pclosed p g v ->
  (forall rs, NoDup rs -> (forall u, In u rs -> reach p g v u) -> length rs <= 14) ->
  (forall u a, reach p g v u -> ~ In (a, u) (edg g u)) ->
  op_slice_some n order g v p = Ok ng ->
  forall w a t, tag ng w <> 0 -> In (a, t) (edg g w) -> p w t a = true ->
    In (a, t) (edg ng w) /\ tag ng t <> 0.
Proof.
  intros Hg Ho Hc Hb Hs A w a t Tw Hin Hp.
  destruct (slice_some_correct n order p g v Hg Ho Hc Hb Hs) as (ng' & A' & _ & _ & T & _ & _).
  rewrite A in A'. injection A' as <-.
  apply T in Tw.
  assert (Ht : reach p g v t) by (apply (reach_step p g v w a t); assumption).
  split; [|apply T; exact Ht].
  apply (slice_some_edges n order p g v ng Hg Ho Hc Hb Hs A). auto.
Qed.

Lemma slice_some_no_foreign_edge n order p g v ng :
  Inv n g -> (forall l, Permutation (order l) l) -> pclosed p g v ->
  (forall rs, NoDup rs -> (forall u, In u rs -> reach p g v u) -> length rs <= 14) ->
  (forall u a, reach p g v u -> ~ In (a, u) (edg g u)) ->
  op_slice_some n order g v p = Ok ng ->
  forall w a t, In (a, t) (edg ng w) -> In (a, t) (edg g w) /\ tag ng w <> 0 /\ tag ng t <> 0.
Proof.
  intros Hg Ho Hc Hb Hs A w a t Hin.
  destruct (slice_some_correct n order p g v Hg Ho Hc Hb Hs) as (ng' & A' & _ & _ & T & _ & _).
  rewrite A in A'. injection A' as <-.
  apply (slice_some_edges n order p g v ng Hg Ho Hc Hb Hs A) in Hin as (Hw & He & Ht).
  split; [exact He|]. split; apply T; assumption.
Qed.

Lemma slice_some_no_data n order p g v ng :
  Inv n g -> (forall l, Permutation (order l) l) -> pclosed p g v ->
  (forall rs, NoDup rs -> (forall u, In u rs -> reach p g v u) -> length rs <= 14) ->
  (forall u a, reach p g v u -> ~ In (a, u) (edg g u)) ->
  op_slice_some n order g v p = Ok ng ->
  forall w, prs ng w = PEmpty /\ has_data ng w = false.
Proof.
  intros Hg Ho Hc Hb Hs A w.
  destruct (slice_some_correct n order p g v Hg Ho Hc Hb Hs) as (ng' & A' & _ & _ & _ & _ & P).
  rewrite A in A'. injection A' as <-.
  split; [apply P|]. unfold has_data. rewrite P. reflexivity.
Qed.

(** [slice]: every edge is accepted *)
Theorem slice_correct n order g v :
  Inv n g -> (forall l, Permutation (order l) l) -> closed g v ->
  (forall rs, NoDup rs -> (forall u, In u rs -> reach ptrue g v u) -> length rs <= 14) ->
  (forall u a, reach ptrue g v u -> ~ In (a, u) (edg g u)) ->
  exists ng,
    op_slice n order g v = Ok ng
    /\ Inv n ng /\ cap_of ng = cap_of g
    /\ (forall w, tag ng w <> 0 <-> reach ptrue g v w)
    /\ (forall w a t, In (a, t) (edg ng w) <-> reach ptrue g v w /\ In (a, t) (edg g w))
    /\ (forall w, reach ptrue g v w -> edg ng w = edg g w)
    /\ (forall w, prs ng w = PEmpty).
Proof.
  intros Hg Ho Hc Hb Hs. apply closed_pclosed in Hc.
  destruct (slice_some_correct n order ptrue g v Hg Ho Hc Hb Hs) as (ng & A & I & C & T & (kept & K & E) & P).
  exists ng. unfold op_slice. fold ptrue. split; [exact A|]. split; [exact I|]. split; [exact C|].
  split; [exact T|]. split; [|split; [|exact P]].
  - intros w a t. rewrite (slice_some_edges n order ptrue g v ng Hg Ho Hc Hb Hs A). split; [tauto|].
    intros (Hw & He). split; [exact Hw|]. split; [exact He|].
    apply (reach_step ptrue g v w a t); auto.
  - intros w Hw. rewrite E. apply K in Hw as Kw. rewrite Kw.
    assert (F : forall e, In e (edg g w) -> kept (snd e) = true).
    { intros [a t] He. cbn [snd]. apply K. apply (reach_step ptrue g v w a t); auto. }
    clear - F. induction (edg g w) as [|e l IH]; cbn [filter]; [reflexivity|].
    rewrite (F e (or_introl eq_refl)). f_equal. apply IH. intros x Hx. apply F. right; exact Hx.
Qed.

(** ** graphs built through the interface: a decidable version of
    [within_limits], for the non-vacuity examples *)

From Sodg Require Import SpecDec History.

Fixpoint within_limitsb (n cap : nat) (s : spec) (os : list op) : bool :=
  match os with
  | [] => true
  | o :: t => preb n cap s o && within_limitsb n cap (fst (sstep s o)) t
  end.

Lemma within_limitsb_spec n cap : forall os s,
  within_limitsb n cap s os = true -> within_limits n cap s os.
Proof.
  induction os as [|o t IH]; intros s H; cbn [within_limitsb within_limits] in *; [exact I|].
  apply andb_true_iff in H as [H1 H2]. split; [apply preb_spec; exact H1 | apply IH; exact H2].
Qed.

(** the state after the calls [os] on an empty graph *)
Definition built (n cap : nat) (os : list op) : sodg :=
  match run n (op_empty cap) os with Ok r => fst r | _ => op_empty cap end.

Lemma built_inv n cap os : within_limitsb n cap sinit os = true -> Inv n (built n cap os).
Proof.
  intros H. apply within_limitsb_spec in H.
  destruct (sim_run_empty n cap os H) as (g' & A & I & _). unfold built. rewrite A. exact I.
Qed.

(** ** computable sufficient conditions for the hypotheses, for examples *)

Definition noselfb (g : sodg) : bool :=
  forallb (fun u => forallb (fun e : label * nat => negb (snd e =? u)) (edg g u)) (iota (cap_of g)).

Lemma noselfb_spec g : noselfb g = true -> forall u a, u < cap_of g -> ~ In (a, u) (edg g u).
Proof.
  intros H u a Hu Hin. unfold noselfb in H. rewrite forallb_forall in H.
  assert (Hu' : In u (iota (cap_of g))) by (unfold iota; apply in_seq; lia).
  specialize (H u Hu'). rewrite forallb_forall in H. specialize (H (a, u) Hin).
  cbn [snd] in H. rewrite Nat.eqb_refl in H. discriminate.
Qed.

Lemma bound_of_cap p g v k :
  pclosed p g v -> cap_of g <= k ->
  forall rs, NoDup rs -> (forall u, In u rs -> reach p g v u) -> length rs <= k.
Proof.
  intros Hc Hk rs N H. eapply Nat.le_trans; [|exact Hk].
  apply nodup_lt_length; auto. intros x Hx. eapply pclosed_reach_lt; eauto.
Qed.

(** ** the example graph, built through the interface (so it is a reachable
    state): cycle 0 -> 1 -> 2 -> 0, a second edge 0 -> 1, data on 1, and a
    vertex 3 that points into the cycle but is not reachable from 0 *)
Definition ex_api_calls : list op :=
  [OAdd 0; OAdd 1; OAdd 2; OAdd 3; OPut 1 (HVector [7%N]);
   OBind 0 1 (Alpha 1); OBind 0 1 (Alpha 0); OBind 1 2 (Greek 945);
   OBind 2 0 (Alpha 0); OBind 3 0 (Alpha 0)].

Definition ex_api : sodg := built 4 5 ex_api_calls.

Lemma ex_api_inv : Inv 4 ex_api.
Proof. apply built_inv. vm_compute. reflexivity. Qed.

(** ** evidence for the two findings *)

(** Finding 1: a self loop.  [rebuild] calls [bind(v, v, a)], outside the
    documented precondition of [bind] (distinct ends).  When [v] is still
    ungrouped at that moment the call does not panic but enters [v] twice in
    the member list of a new group: the result violates [Inv]. *)
Definition ex_selfloop : sodg :=
  set_vtx (op_empty 2) 0 (mkV 1 hex_empty PEmpty [(Alpha 0, 0)]).

Example slice_selfloop :
  exists ng, op_slice 4 (fun l => l) ex_selfloop 0 = Ok ng
    /\ tag ng 0 = 2 /\ members ng 2 = [0; 0] /\ edg ng 0 = [(Alpha 0, 0)]
    /\ ~ Inv 4 ng.
Proof.
  exists (match op_slice 4 (fun l => l) ex_selfloop 0 with Ok ng => ng | _ => op_empty 0 end).
  split; [vm_compute; reflexivity|].
  split; [vm_compute; reflexivity|]. split; [vm_compute; reflexivity|]. split; [vm_compute; reflexivity|].
  set (ng := match op_slice 4 (fun l => l) ex_selfloop 0 with Ok ng => ng | _ => op_empty 0 end).
  assert (Hm : members ng 2 = [0; 0]) by (vm_compute; reflexivity). clearbody ng.
  intros HI. pose proof (i_nodup HI 2 (le_n 2)) as H.
  assert (H' : NoDup [0; 0]) by (rewrite <- Hm; apply H; lia).
  inversion H' as [|? ? Hn _]. apply Hn. left; reflexivity.
Qed.

(** the same through the interface: [bind(0, 0, a)] on a fresh vertex *)
Example bind_selfloop :
  members (built 4 2 [OAdd 0; OBind 0 0 (Alpha 0)]) 2 = [0; 0].
Proof. vm_compute. reflexivity. Qed.

(** Finding 2: the bound.  Two chains 0 -> .. -> 8 and 9 -> .. -> k built
    separately (two groups) and then joined by the edge 8 -> 9 form a state
    reachable within all limits; [slice(0)] rebuilds it vertex by vertex into
    a single group, which holds 16 members: with 16 kept vertices the slice
    succeeds, with 17 it panics (microstack full). *)
Definition two_chains (k : nat) : list op :=
  map OAdd (iota (S k))
  ++ map (fun i => OBind i (S i) (Alpha 0)) (seq 0 8)
  ++ map (fun i => OBind i (S i) (Alpha 0)) (seq 9 (k - 9))
  ++ [OBind 8 9 (Alpha 0)].

Example slice_chain_16 :
  within_limitsb 1 16 sinit (two_chains 15) = true
  /\ is_ok (op_slice 1 (fun l => l) (built 1 16 (two_chains 15)) 0) = true.
Proof. split; vm_compute; reflexivity. Qed.

Example slice_chain_17 :
  within_limitsb 1 17 sinit (two_chains 16) = true
  /\ closedb (built 1 17 (two_chains 16)) = true
  /\ noselfb (built 1 17 (two_chains 16)) = true
  /\ op_slice 1 (fun l => l) (built 1 17 (two_chains 16)) 0 = Panic PStackFull.
Proof. repeat split; vm_compute; reflexivity. Qed.

(** ** states reachable through the interface

    In a state reached by calls within the limits every edge leads to a slot
    of the graph and no vertex has an edge to itself ([bind] is only called
    with distinct, present ends), so for such a state the hypotheses
    [pclosed] and "no self loop" of [slice_some_correct] hold by themselves. *)

Definition edges_ok (g : sodg) : Prop :=
  forall u a t, In (a, t) (edg g u) -> t <> u /\ t < cap_of g.

Lemma mm_replace_in e a v : forall e' b t,
  mm_replace e a v = Some e' -> In (b, t) e' -> In (b, t) e \/ t = v.
Proof.
  induction e as [|[k w] rest IH]; intros e' b t H Hin; cbn [mm_replace] in H; [discriminate|].
  destruct (label_eqb k a).
  - injection H as <-. destruct Hin as [E|Hin]; [injection E as _ <-; right; reflexivity | left; right; exact Hin].
  - destruct (mm_replace rest a v) as [r'|] eqn:R; [|discriminate]. injection H as <-.
    destruct Hin as [E|Hin]; [left; left; exact E|].
    destruct (IH r' b t eq_refl Hin) as [H|H]; [left; right; exact H | right; exact H].
Qed.

Lemma spec_insert_in e a v b t : In (b, t) (spec_insert e a v) -> In (b, t) e \/ t = v.
Proof.
  unfold spec_insert. destruct (mm_replace e a v) as [e'|] eqn:R.
  - apply (mm_replace_in e a v e' b t R).
  - intros H. apply in_app_iff in H as [H|[E|[]]]; [left; exact H|]. injection E as _ <-. right; reflexivity.
Qed.

Lemma kill_edg : forall ms g g', kill g ms = Ok g' -> forall w, edg g' w = edg g w.
Proof.
  induction ms as [|m t IH]; intros g g' H w; cbn [kill] in H.
  - injection H as <-. reflexivity.
  - destruct (chk_v g m); cbn [obind] in H; try discriminate.
    rewrite (IH _ _ H w). apply edg_set_tag.
Qed.

Lemma add_store_edg g b k g' : add_store g b k = Ok g' -> forall w, edg g' w = edg g w.
Proof.
  unfold add_store. destruct (chk_b g b); cbn [obind]; try discriminate.
  intros H w. injection H as <-. reflexivity.
Qed.

Lemma op_put_edg g v d g' : op_put g v d = Ok g' -> forall w, edg g' w = edg g w.
Proof.
  unfold op_put. destruct (chk_v g v); cbn [obind]; try discriminate.
  assert (Q : forall w, edg (set_vtx g v (mkV (v_branch (vtx g v)) d PStored (v_edges (vtx g v)))) w = edg g w).
  { intros w. unfold edg. rewrite vtx_set_vtx.
    destruct (Nat.eqb_spec v w) as [->|]; cbn [andb]; [|reflexivity].
    destruct (w <? cap_of g); reflexivity. }
  destruct (_ && _).
  - intros H w. rewrite (add_store_edg _ _ _ _ H w). apply Q.
  - intros H w. injection H as <-. apply Q.
Qed.

Lemma op_data_edg g v g' r : op_data g v = Ok (g', r) -> forall w, edg g' w = edg g w.
Proof.
  unfold op_data. destruct (chk_v g v); cbn [obind]; try discriminate.
  destruct (v_pers (vtx g v)).
  - intros H w; injection H as <- <-. reflexivity.
  - destruct (_ =? BRANCH_STATIC).
    + intros H w; injection H as <- <-. apply edg_set_prs.
    + destruct (chk_b _ _); cbn [obind]; try discriminate.
      destruct (_ =? 0); [discriminate|].
      destruct (_ =? 0).
      * destruct (kill _ _) as [g3| | |] eqn:K; cbn [obind]; try discriminate.
        intros H w; injection H as <- <-. rewrite edg_set_members, (kill_edg _ _ _ K w).
        rewrite edg_set_store. apply edg_set_prs.
      * intros H w; injection H as <- <-. rewrite edg_set_store. apply edg_set_prs.
  - intros H w; injection H as <- <-. reflexivity.
Qed.

Lemma op_next_id_edg g g' id : op_next_id g = Ok (g', id) -> forall w, edg g' w = edg g w.
Proof.
  unfold op_next_id. destruct (find _ _); [|discriminate].
  destruct (_ <? _); intros H w; injection H as <- <-; reflexivity.
Qed.

Lemma step_edges_ok n g o g' r :
  Inv n g -> cpre n g o -> step n g o = Ok (g', r) -> edges_ok g -> edges_ok g'.
Proof.
  intros HI Hc Hs Hok. pose proof (step_shape n g o g' r Hs) as (C & _).
  assert (Same : (forall w, edg g' w = edg g w) -> edges_ok g').
  { intros E u a t Hin. rewrite E in Hin. rewrite C. apply (Hok u a t Hin). }
  destruct o as [v|v1 v2 a|v d|v| |v a|v|]; cbn [step] in Hs.
  - destruct (add_effect g v Hc) as (g1 & A & _ & _ & _ & E & _).
    rewrite A in Hs. cbn [obind] in Hs. injection Hs as <- _.
    intros u b t Hin. rewrite E in Hin. rewrite C.
    destruct ((u =? v) && (tag g v =? 0)); [destruct Hin | apply (Hok u b t Hin)].
  - destruct (bind_effect n g v1 v2 a HI Hc) as (g1 & A & _ & _ & _ & _ & E & _).
    rewrite A in Hs. cbn [obind] in Hs. injection Hs as <- _.
    destruct Hc as (_ & T2 & Hne & _).
    intros u b t Hin. rewrite E in Hin. rewrite C.
    destruct (Nat.eqb_spec u v1) as [->|]; [|apply (Hok u b t Hin)].
    apply spec_insert_in in Hin as [Hin| ->]; [apply (Hok v1 b t Hin)|].
    split; [congruence | apply tag_nonzero_lt; exact T2].
  - destruct (op_put g v d) as [g1| | |] eqn:A; cbn [obind] in Hs; try discriminate.
    injection Hs as <- _. apply Same. apply (op_put_edg g v d g1 A).
  - destruct (op_data g v) as [[g1 r1]| | |] eqn:A; cbn [obind fst snd] in Hs; try discriminate.
    injection Hs as <- _. apply Same. apply (op_data_edg g v g1 r1 A).
  - destruct (op_next_id g) as [[g1 r1]| | |] eqn:A; cbn [obind fst snd] in Hs; try discriminate.
    injection Hs as <- _. apply Same. apply (op_next_id_edg g g1 r1 A).
  - destruct (op_kid g v a); cbn [obind] in Hs; try discriminate.
    injection Hs as <- _. exact Hok.
  - destruct (op_kids g v); cbn [obind] in Hs; try discriminate.
    injection Hs as <- _. exact Hok.
  - injection Hs as <- _. exact Hok.
Qed.

Lemma run_edges_ok n : forall os g s,
  Inv n g -> R g s -> within_limits n (cap_of g) s os -> edges_ok g ->
  forall g' rs, run n g os = Ok (g', rs) -> Inv n g' /\ edges_ok g' /\ cap_of g' = cap_of g.
Proof.
  induction os as [|o t IH]; intros g s HI HR HW Hok g' rs Hrun.
  - cbn [run] in Hrun. injection Hrun as <- _. auto.
  - destruct HW as [Hp HW].
    destruct (sim_step n g s o HI HR Hp) as (g1 & A & I1 & R1).
    pose proof (step_shape n g o g1 _ A) as (C1 & _).
    pose proof (step_edges_ok n g o g1 _ HI (pre_cpre n g s o HI HR Hp) A Hok) as Hok1.
    cbn [run] in Hrun. rewrite A in Hrun. cbn [obind fst snd] in Hrun.
    destruct (run n g1 t) as [[g2 rs2]| | |] eqn:A2; cbn [obind fst snd] in Hrun; try discriminate.
    injection Hrun as <- _.
    rewrite <- C1 in HW.
    destruct (IH g1 _ I1 R1 HW Hok1 g2 rs2 A2) as (I2 & O2 & C2).
    split; [exact I2|]. split; [exact O2|]. congruence.
Qed.

Lemma reachable_state n cap os g rs :
  within_limits n cap sinit os -> run n (op_empty cap) os = Ok (g, rs) ->
  Inv n g /\ edges_ok g /\ cap_of g = cap.
Proof.
  intros HW Hrun. rewrite <- (cap_empty cap) in HW.
  destruct (run_edges_ok n os (op_empty cap) sinit (inv_empty n cap) (R_init cap) HW) with (g' := g) (rs := rs)
    as (I & O & C); auto.
  - intros u a t Hin. rewrite edg_empty in Hin. destruct Hin.
  - rewrite cap_empty in C. auto.
Qed.

Lemma edges_ok_pclosed p g v : edges_ok g -> v < cap_of g -> pclosed p g v.
Proof.
  intros Hok Hv. split; [exact Hv|]. intros u a w _ Hin _. apply (Hok u a w Hin).
Qed.

(** C13 for the states of the property's quantifier: reached through the
    interface within the limits; the start vertex is a slot of the graph *)
Theorem slice_some_reachable n cap os g rs order p v :
  within_limits n cap sinit os -> run n (op_empty cap) os = Ok (g, rs) ->
  (forall l, Permutation (order l) l) -> v < cap ->
  (forall ks, NoDup ks -> (forall u, In u ks -> reach p g v u) -> length ks <= 14) ->
  exists ng,
    op_slice_some n order g v p = Ok ng
    /\ Inv n ng /\ cap_of ng = cap_of g
    /\ (forall w, tag ng w <> 0 <-> reach p g v w)
    /\ (forall w a t, In (a, t) (edg ng w) <-> reach p g v w /\ In (a, t) (edg g w) /\ reach p g v t)
    /\ (forall w, prs ng w = PEmpty).
Proof.
  intros HW Hrun Ho Hv Hb.
  destruct (reachable_state n cap os g rs HW Hrun) as (HI & Hok & C).
  assert (Hc : pclosed p g v) by (apply edges_ok_pclosed; [exact Hok | rewrite C; exact Hv]).
  assert (Hs : forall u a, reach p g v u -> ~ In (a, u) (edg g u)).
  { intros u a _ Hin. destruct (Hok u a u Hin) as [H _]. apply H. reflexivity. }
  destruct (slice_some_correct n order p g v HI Ho Hc Hb Hs) as (ng & A & I & Cn & T & _ & P).
  exists ng. split; [exact A|]. split; [exact I|]. split; [exact Cn|]. split; [exact T|]. split; [|exact P].
  apply (slice_some_edges n order p g v ng HI Ho Hc Hb Hs A).
Qed.

Print Assumptions slice_some_reachable.
Print Assumptions slice_some_correct_16.
Print Assumptions slice_correct.
