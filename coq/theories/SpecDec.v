(** * SpecDec: a boolean version of the limits/preconditions predicate [pre]
    of Spec.v, so that the correspondence check can ask the (extracted)
    reference model whether a call of a generated history is still inside the
    quantifier of the properties.  [preb_spec] shows it decides [pre]. *)

From Sodg Require Export Spec.

Definition none_b {A} (o : option A) : bool := match o with None => true | Some _ => false end.

Definition preb (n cap : nat) (s : spec) (o : op) : bool :=
  match o with
  | OAdd v => v <? cap
  | OBind v1 v2 a =>
      s_present s v1 && s_present s v2 && negb (v1 =? v2)
      && (has_label (s_edges s v1) a || (length (s_edges s v1) <? n))
      && match s_grp s v1, s_grp s v2 with
         | None, None => length (alive_groups s) <? 14
         | None, Some g => length (group_members s g) <? 16
         | Some g, None => length (group_members s g) <? 16
         | Some _, Some _ => true
         end
  | OPut v _ | OData v | OKid v _ | OKids v => s_present s v
  | ONext => existsb (fun id => negb (s_present s id)) (seq (s_alloc s) (cap - s_alloc s))
  | OKeys => true
  end.

Lemma preb_spec n cap s o : preb n cap s o = true <-> pre n cap s o.
Proof.
  destruct o as [v|v1 v2 a|v d|v| |v a|v|]; cbn [preb pre]; try tauto; try (split; auto; fail).
  - apply Nat.ltb_lt.
  - rewrite !andb_true_iff, orb_true_iff, negb_true_iff, Nat.eqb_neq, Nat.ltb_lt.
    destruct (s_grp s v1), (s_grp s v2); rewrite ?Nat.ltb_lt; tauto.
  - rewrite existsb_exists. split.
    + intros (id & Hin & Hp). apply in_seq in Hin. apply negb_true_iff in Hp. exists id. repeat split; try lia. exact Hp.
    + intros (id & H1 & H2 & H3). exists id. split; [apply in_seq; lia|]. apply negb_true_iff. exact H3.
Qed.

(** the reference run with the limits judged call by call: the state, the
    results, and for each call whether it was inside the limits *)
Fixpoint srun_judged (n cap : nat) (s : spec) (os : list op) : list (bool * res * list nat) :=
  match os with
  | [] => []
  | o :: t =>
      let ok := preb n cap s o in
      let '(s1, r) := sstep s o in
      (ok, r, s_keys s1) :: srun_judged n cap s1 t
  end.
