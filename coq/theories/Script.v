(** * Script: model of src/script.rs ([Script::from_str], [deploy_to]).

    The three regular expressions, [str::trim], [str::split] and
    [usize::from_str] are re-implemented as list functions over code points. *)

From Sodg Require Export Sodg.

Definition ch_hash : N := 35.    (* # *)
Definition ch_semi : N := 59.    (* ; *)
Definition ch_comma : N := 44.   (* , *)
Definition ch_lpar : N := 40.    (* ( *)
Definition ch_rpar : N := 41.    (* ) *)
Definition ch_dollar : N := 36.  (* $ *)

Definition text_eqb (a b : text) : bool := list_eqb N.eqb a b.

(** [Regex::new("#.*\n").replace_all(text, "")]: every stretch from a [#] up
    to and including the next line feed disappears; a [#] with no line feed
    after it stays *)
Fixpoint strip_comments (incomment : bool) (t : text) : text :=
  match t with
  | [] => []
  | c :: r =>
      if incomment then (if (c =? ch_lf)%N then strip_comments false r else strip_comments true r)
      else if ((c =? ch_hash)%N && existsb (N.eqb ch_lf) r)%bool then strip_comments true r
      else c :: strip_comments false r
  end.

(** [str::split(sep)] *)
Fixpoint split_on (sep : N) (t : text) : list text :=
  match t with
  | [] => [[]]
  | c :: r =>
      if (c =? sep)%N then [] :: split_on sep r
      else match split_on sep r with
           | [] => [[c]]
           | h :: tl => (c :: h) :: tl
           end
  end.

(** Unicode [White_Space], as used by [str::trim] *)
Definition is_ws (c : N) : bool :=
  ((9 <=? c) && (c <=? 13) || (c =? 32) || (c =? 133) || (c =? 160) || (c =? 5760)
   || (8192 <=? c) && (c <=? 8202) || (c =? 8232) || (c =? 8233) || (c =? 8239)
   || (c =? 8287) || (c =? 12288))%N.

Fixpoint drop_ws (t : text) : text :=
  match t with
  | c :: r => if is_ws c then drop_ws r else t
  | [] => []
  end.

Definition trim (t : text) : text := rev (drop_ws (rev (drop_ws t))).

(** [split(sep).map(trim).filter(non-empty)] *)
Definition fields (sep : N) (t : text) : list text :=
  filter (fun f => negb (isnil f)) (map trim (split_on sep t)).

(** [commands()] *)
Definition commands (t : text) : list text := fields ch_semi (strip_comments false t).

Definition is_upper (c : N) : bool := ((65 <=? c) && (c <=? 90))%N.

Fixpoint take_while (p : N -> bool) (t : text) : text :=
  match t with
  | c :: r => if p c then c :: take_while p r else []
  | [] => []
  end.

Fixpoint drop_while (p : N -> bool) (t : text) : text :=
  match t with
  | c :: r => if p c then drop_while p r else t
  | [] => []
  end.

(** the LINE regular expression: one or more ASCII capitals, any number of
    spaces, an opening parenthesis, any characters but a closing parenthesis,
    and a closing parenthesis as the very last character; yields the command
    name and the raw argument text *)
Definition parse_line (cmd : text) : option (text * text) :=
  let name := take_while is_upper cmd in
  match name with
  | [] => None
  | _ =>
      match drop_while (N.eqb ch_space) (drop_while is_upper cmd) with
      | c :: r3 =>
          if (c =? ch_lpar)%N then
            match rev r3 with
            | d :: body_rev =>
                if ((d =? ch_rpar)%N && negb (existsb (N.eqb ch_rpar) body_rev))%bool
                then Some (name, rev body_rev)
                else None
            | [] => None
            end
          else None
      | [] => None
      end
  end.

(** [parse_data]: strip blanks and dashes, then a non-empty even run of hex
    digits *)
Definition is_data_strip (c : N) : bool :=
  ((c =? 32) || (c =? 9) || (c =? 10) || (c =? 13) || (c =? ch_dash))%N.

Definition parse_data (s : text) : option hex :=
  match filter (fun c => negb (is_data_strip c)) s with
  | [] => None
  | d => match hex_decode d with
         | Some bs => Some (from_vec bs)
         | None => None
         end
  end.

Definition vars := list (text * nat).

Fixpoint var_get (vs : vars) (k : text) : option nat :=
  match vs with
  | [] => None
  | (k', v) :: t => if text_eqb k' k then Some v else var_get t k
  end.

(** every id at or beyond the capacity makes the API call panic in the same
    way, so such ids are represented by the capacity itself (a [usize] up to
    2^64-1 cannot be a unary [nat]) *)
Definition clamp_id (g : sodg) (n : N) : nat := N.to_nat (N.min n (N.of_nat (cap_of g))).

(** result of one step of the interpreter: [SErr g] is the [Err] of anyhow,
    with the graph as the failed step left it (a [$variable] allocated by an
    earlier argument of the failing command has already moved the allocator) *)
Inductive sres (A : Type) := SOk (a : A) | SErr (g : sodg).
Arguments SOk {A} a.
Arguments SErr {A} g.

(** [parse()]: an id literal, a nu-prefixed literal, or a [$variable] *)
Definition parse_arg (vs : vars) (g : sodg) (s : text) : outcome (sres (vars * sodg * nat)) :=
  match s with
  | [] => Ok (SErr g)
  | head :: tail =>
      if (head =? ch_dollar)%N then
        match var_get vs tail with
        | Some v => Ok (SOk (vs, g, v))
        | None => r <- op_next_id g ;; Ok (SOk ((tail, snd r) :: vs, fst r, snd r))
        end
      else if (head =? ch_nu)%N then
        match parse_usize tail with
        | Some n => Ok (SOk (vs, g, clamp_id g n))
        | None => Ok (SErr g)
        end
      else
        match parse_usize s with
        | Some n => Ok (SOk (vs, g, clamp_id g n))
        | None => Ok (SErr g)
        end
  end.

Definition t_ADD : text := [65; 68; 68]%N.
Definition t_BIND : text := [66; 73; 78; 68]%N.
Definition t_PUT : text := [80; 85; 84]%N.

(** [deploy_one()]; [n] is the const generic [N] of the graph *)
Definition deploy_one (n : nat) (vs : vars) (g : sodg) (cmd : text)
  : outcome (sres (vars * sodg)) :=
  match parse_line cmd with
  | None => Ok (SErr g)
  | Some (name, raw) =>
      let args := fields ch_comma raw in
      if text_eqb name t_ADD then
        match args with
        | a1 :: _ =>
            r <- parse_arg vs g a1 ;;
            match r with
            | SOk (vs1, g1, v) => g2 <- op_add g1 v ;; Ok (SOk (vs1, g2))
            | SErr g' => Ok (SErr g')
            end
        | [] => Ok (SErr g)
        end
      else if text_eqb name t_BIND then
        match args with
        | a1 :: rest =>
            r <- parse_arg vs g a1 ;;
            match r with
            | SOk (vs1, g1, v1) =>
                match rest with
                | a2 :: rest2 =>
                    r2 <- parse_arg vs1 g1 a2 ;;
                    match r2 with
                    | SOk (vs2, g2, v2) =>
                        match rest2 with
                        | a3 :: _ =>
                            match label_from_str a3 with
                            | Some l => g3 <- op_bind n g2 v1 v2 l ;; Ok (SOk (vs2, g3))
                            | None => Ok (SErr g2)
                            end
                        | [] => Ok (SErr g2)
                        end
                    | SErr g' => Ok (SErr g')
                    end
                | [] => Ok (SErr g1)
                end
            | SErr g' => Ok (SErr g')
            end
        | [] => Ok (SErr g)
        end
      else if text_eqb name t_PUT then
        match args with
        | a1 :: rest =>
            r <- parse_arg vs g a1 ;;
            match r with
            | SOk (vs1, g1, v) =>
                match rest with
                | a2 :: _ =>
                    match parse_data a2 with
                    | Some d => g2 <- op_put g1 v d ;; Ok (SOk (vs1, g2))
                    | None => Ok (SErr g1)
                    end
                | [] => Ok (SErr g1)
                end
            | SErr g' => Ok (SErr g')
            end
        | [] => Ok (SErr g)
        end
      else Ok (SErr g)
  end.

(** [deploy_to()]: the graph after the run, and [Some count] for [Ok(count)],
    [None] for [Err] *)
Fixpoint deploy_cmds (n : nat) (vs : vars) (g : sodg) (cmds : list text) (pos : nat)
  : outcome (sodg * option nat) :=
  match cmds with
  | [] => Ok (g, Some pos)
  | c :: rest =>
      r <- deploy_one n vs g c ;;
      match r with
      | SOk (vs1, g1) => deploy_cmds n vs1 g1 rest (S pos)
      | SErr g' => Ok (g', None)
      end
  end.

Definition op_deploy (n : nat) (g : sodg) (script : text) : outcome (sodg * option nat) :=
  deploy_cmds n [] g (commands script) 0.
