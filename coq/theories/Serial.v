(** * Serial: model of src/serialization.rs: the byte image written by
    [save()] and the decoder run by [load()].

    [encode] follows bincode 1.3.3 with the options of [bincode::serialize]
    (fixed-width little-endian integers, [u64] lengths, [u32] enum variant
    indices, [char] as UTF-8) and the serde implementations of [Sodg],
    [Vertex], [Hex], [Label], [Persistence] (derived) and of [emap::Map],
    [micromap::Map], [microstack::Stack] (hand-written in those crates).
    [next_v] is [#[serde(skip)]]: not written, 0 after loading.

    [decode] is what [bincode::deserialize] does with those impls, including
    the three ways the container visitors can panic in a debug build. *)

From Sodg Require Export Sodg.

(** ** encoder *)

Definition le_bytes (k : nat) (x : N) : list N :=
  (fix go (k : nat) (x : N) : list N :=
     match k with
     | O => []
     | S k' => (x mod 256)%N :: go k' (x / 256)%N
     end) k x.

Definition enc_u64 (x : N) : list N := le_bytes 8 x.
Definition enc_u32 (x : N) : list N := le_bytes 4 x.
Definition enc_nat (x : nat) : list N := enc_u64 (N.of_nat x).

(** UTF-8 encoding of a scalar value *)
Definition utf8_enc (c : N) : list N :=
  (if c <? 128 then [c]
   else if c <? 2048 then [192 + c / 64; 128 + c mod 64]
   else if c <? 65536 then [224 + c / 4096; 128 + (c / 64) mod 64; 128 + c mod 64]
   else [240 + c / 262144; 128 + (c / 4096) mod 64; 128 + (c / 64) mod 64; 128 + c mod 64])%N.

Definition enc_label (l : label) : list N :=
  match l with
  | Greek c => enc_u32 0 ++ utf8_enc c
  | Alpha n => enc_u32 1 ++ enc_u64 n
  | LStr cs => enc_u32 2 ++ concat (map utf8_enc cs)
  end.

Definition enc_hex (h : hex) : list N :=
  match h with
  | HVector l => enc_u32 0 ++ enc_nat (length l) ++ l
  | HBytes a n => enc_u32 1 ++ a ++ enc_nat n
  end.

Definition enc_pers (p : pers) : list N :=
  enc_u32 (match p with PEmpty => 0 | PStored => 1 | PTaken => 2 end)%N.

Definition enc_edge (e : label * nat) : list N := enc_label (fst e) ++ enc_nat (snd e).

Definition enc_vertex (x : vertex) : list N :=
  enc_nat (v_branch x) ++ enc_hex (v_data x) ++ enc_pers (v_pers x)
  ++ enc_nat (length (v_edges x)) ++ concat (map enc_edge (v_edges x)).

Definition enc_stack (m : list nat) : list N :=
  enc_nat (length m) ++ concat (map enc_nat m).

(** an emap whose slots are all [Some]: count, then (key, value) in key order *)
Definition enc_emap {A} (enc : A -> list N) (l : list A) : list N :=
  enc_nat (length l)
  ++ concat (map (fun kv : nat * A => enc_nat (fst kv) ++ enc (snd kv))
                 (combine (iota (length l)) l)).

Definition encode (g : sodg) : list N :=
  enc_emap enc_nat (g_stores g)
  ++ enc_emap enc_stack (g_branches g)
  ++ enc_emap enc_vertex (g_vertices g).

(** ** decoder: parser combinators over the remaining input *)

Inductive dres (A : Type) :=
| DOk (a : A) (rest : list N)
| DEof        (* ran out of input: bincode's UnexpectedEof (an [Err]) *)
| DInvalid    (* any other decoding error (an [Err]) *)
| DPanic      (* a container visitor panicked (debug build) *)
| DUnmod.     (* a number beyond the model's [lim]: not modelled *)

Arguments DOk {A} a rest.
Arguments DEof {A}.
Arguments DInvalid {A}.
Arguments DPanic {A}.
Arguments DUnmod {A}.

Definition parser (A : Type) := list N -> dres A.

Definition pret {A} (a : A) : parser A := fun l => DOk a l.
Definition pfail {A} (r : dres A) : parser A := fun _ => r.

Definition pbind {A B} (p : parser A) (f : A -> parser B) : parser B :=
  fun l => match p l with
           | DOk a rest => f a rest
           | DEof => DEof
           | DInvalid => DInvalid
           | DPanic => DPanic
           | DUnmod => DUnmod
           end.

Notation "x <~ p ;; q" := (pbind p (fun x => q))
  (at level 61, p at next level, right associativity).

Definition pbyte : parser N :=
  fun l => match l with [] => DEof | b :: t => DOk b t end.

(** [k] bytes, little endian *)
Fixpoint ple (k : nat) : parser N :=
  match k with
  | O => pret 0%N
  | S k' => b <~ pbyte ;; r <~ ple k' ;; pret (b + 256 * r)%N
  end.

Definition pu64 : parser N := ple 8.
Definition pu32 : parser N := ple 4.

(** numbers that become [nat] in the model are cut off at [lim] (an
    adversarial image may say 2^64-1; a unary [nat] of that size cannot be
    built).  Results do not depend on [lim] once it exceeds every number in
    the image. *)
Definition psmall (lim : N) : parser nat :=
  x <~ pu64 ;; if (x <? lim)%N then pret (N.to_nat x) else pfail DUnmod.

(** [count] repetitions of [p].  The count comes from the image and may be
    huge, so recursion is on [fuel]; callers pass [S (length input)], which
    cannot run out because every element parser consumes at least one byte. *)
Fixpoint prepeat {A} (fuel : nat) (count : N) (p : parser A) : parser (list A) :=
  fun l =>
    if (count =? 0)%N then DOk [] l
    else match fuel with
         | O => DEof
         | S f => (x <~ p ;; xs <~ prepeat f (count - 1) p ;; pret (x :: xs)) l
         end.

Definition pseq {A} (p : parser A) : parser (list A) :=
  fun l => (n <~ pu64 ;; fun l' => prepeat (S (length l')) n p l') l.

(** [deserialize_char] *)
Definition is_cont (b : N) : bool := ((128 <=? b) && (b <=? 191))%N.

Definition pchar : parser N :=
  b0 <~ pbyte ;;
  (if b0 <? 128 then pret b0
   else if (194 <=? b0) && (b0 <=? 223) then
     b1 <~ pbyte ;;
     if is_cont b1 then pret ((b0 - 192) * 64 + (b1 - 128)) else pfail DInvalid
   else if (224 <=? b0) && (b0 <=? 239) then
     b1 <~ pbyte ;; b2 <~ pbyte ;;
     let ok1 := if b0 =? 224 then (160 <=? b1) && (b1 <=? 191)
                else if b0 =? 237 then (128 <=? b1) && (b1 <=? 159)
                else is_cont b1 in
     if ok1 && is_cont b2
     then pret ((b0 - 224) * 4096 + (b1 - 128) * 64 + (b2 - 128))
     else pfail DInvalid
   else if (240 <=? b0) && (b0 <=? 244) then
     b1 <~ pbyte ;; b2 <~ pbyte ;; b3 <~ pbyte ;;
     let ok1 := if b0 =? 240 then (144 <=? b1) && (b1 <=? 191)
                else if b0 =? 244 then (128 <=? b1) && (b1 <=? 143)
                else is_cont b1 in
     if ok1 && is_cont b2 && is_cont b3
     then pret ((b0 - 240) * 262144 + (b1 - 128) * 4096 + (b2 - 128) * 64 + (b3 - 128))
     else pfail DInvalid
   else pfail DInvalid)%N.

Fixpoint ptimes {A} (k : nat) (p : parser A) : parser (list A) :=
  match k with
  | O => pret []
  | S k' => x <~ p ;; xs <~ ptimes k' p ;; pret (x :: xs)
  end.

Definition plabel : parser label :=
  v <~ pu32 ;;
  (if v =? 0 then c <~ pchar ;; pret (Greek c)
   else if v =? 1 then n <~ pu64 ;; pret (Alpha n)
   else if v =? 2 then cs <~ ptimes 8 pchar ;; pret (LStr cs)
   else pfail DInvalid)%N.

Definition phex (lim : N) : parser hex :=
  v <~ pu32 ;;
  (if v =? 0 then l <~ pseq pbyte ;; pret (HVector l)
   else if v =? 1 then a <~ ptimes 8 pbyte ;; n <~ psmall lim ;; pret (HBytes a n)
   else pfail DInvalid)%N.

Definition ppers : parser pers :=
  v <~ pu32 ;;
  (if v =? 0 then pret PEmpty
   else if v =? 1 then pret PStored
   else if v =? 2 then pret PTaken
   else pfail DInvalid)%N.

Definition pedge (lim : N) : parser (label * nat) :=
  a <~ plabel ;; v <~ psmall lim ;; pret (a, v).

(** the micromap visitor inserts each pair as soon as it is read: the pair
    that would be the (N+1)-th distinct key panics at that point *)
Fixpoint pedges_loop (fuel : nat) (count : N) (lim : N) (n_edges : nat) (acc : edges)
  : parser edges :=
  fun l =>
    if (count =? 0)%N then DOk acc l
    else match fuel with
         | O => DEof
         | S f =>
             (e <~ pedge lim ;;
              match mm_insert n_edges acc (fst e) (snd e) with
              | Ok acc' => pedges_loop f (count - 1) lim n_edges acc'
              | _ => pfail DPanic
              end) l
         end.

Definition pedges (lim : N) (n_edges : nat) : parser edges :=
  fun l => (n <~ pu64 ;; fun l' => pedges_loop (S (length l')) n lim n_edges [] l') l.

Definition pvertex (lim : N) (n_edges : nat) : parser vertex :=
  b <~ psmall lim ;; d <~ phex lim ;; p <~ ppers ;; e <~ pedges lim n_edges ;;
  pret (mkV b d p e).

(** the microstack visitor pushes each element as soon as it is read: the
    17th element panics at that point (after it has been read) *)
Definition pstack (lim : N) : parser (list nat) :=
  fun l =>
    (n <~ pu64 ;;
     fun l' =>
       (m <~ prepeat (S (length l')) (N.min n 16) (psmall lim) ;;
        if (n <=? 16)%N then pret m
        else _ <~ psmall lim ;; pfail DPanic) l') l.

(** the emap visitor: all entries go to a [HashMap] (a later duplicate wins),
    then a map of capacity "number of distinct keys" is filled; a key at or
    beyond that capacity trips the debug assertion *)
Fixpoint assoc_last {A} (kvs : list (nat * A)) (k : nat) : option A :=
  match kvs with
  | [] => None
  | (k', v) :: t =>
      match assoc_last t k with
      | Some r => Some r
      | None => if k' =? k then Some v else None
      end
  end.

Fixpoint distinct_keys {A} (kvs : list (nat * A)) : list nat :=
  match kvs with
  | [] => []
  | (k, _) :: t => let r := distinct_keys t in if mem k r then r else k :: r
  end.

Fixpoint collect_slots {A} (kvs : list (nat * A)) (ks : list nat) : option (list A) :=
  match ks with
  | [] => Some []
  | k :: t =>
      match assoc_last kvs k, collect_slots kvs t with
      | Some v, Some r => Some (v :: r)
      | _, _ => None
      end
  end.

Definition emap_build {A} (kvs : list (nat * A)) : option (list A) :=
  let m := length (distinct_keys kvs) in
  if forallb (fun kv : nat * A => fst kv <? m) kvs
  then collect_slots kvs (iota m)
  else None.

Definition pemap {A} (lim : N) (p : parser A) : parser (list A) :=
  kvs <~ pseq (k <~ psmall lim ;; v <~ p ;; pret (k, v)) ;;
  match emap_build kvs with
  | Some l => pret l
  | None => pfail DPanic
  end.

Definition psodg (lim : N) (n_edges : nat) : parser sodg :=
  st <~ pemap lim (psmall lim) ;;
  br <~ pemap lim (pstack lim) ;;
  vs <~ pemap lim (pvertex lim n_edges) ;;
  pret (mkG st br vs 0).

(** [load()]: trailing bytes are allowed by [bincode::deserialize] *)
Inductive load_result := LOk (g : sodg) | LErr | LPanic | LUnmod.

Definition decode (lim : N) (n_edges : nat) (img : list N) : load_result :=
  match psodg lim n_edges img with
  | DOk g _ => LOk g
  | DEof | DInvalid => LErr
  | DPanic => LPanic
  | DUnmod => LUnmod
  end.
