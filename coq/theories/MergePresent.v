(** * MergePresent: every image recorded in the [mapped] table of [merge] is a
    PRESENT vertex of the left graph after the merge, provided the left graph
    has no dangling edge ([lclosed]).

    - [merge_images_present]   every image in [m'] is present in [s'];
    - [merge_keeps_lclosed]    the left graph stays closed, its capacity is
                               unchanged, nothing that was present disappears;
    - [merge_ok_images_present] in terms of [op_merge .. = Ok (s', None)]:
                               every present right vertex has a present image;
    - [merge_dangling_image_absent]  without [lclosed] the conclusion fails on
                               the model (although [Inv] holds of the left graph).

    Nothing in the proof needs the whole of [Inv]: the only fact used is
    [members s 0 <> []] (group slot 0 holds its sentinel, so [bind] never hands
    out 0 as a group number, i.e. never writes the tag "absent" on a vertex).
    The general theorems ([_gen]) are stated with this hypothesis; this matters
    because [Inv] is NOT preserved by the calls merge makes: a right graph with
    a loop makes merge call [bind(left, left, a)] (see [merge_self_bind]). *)

From Sodg Require Import MergeFacts BuildFacts.


(** every edge of a present vertex leads to a present vertex inside the graph *)
Definition lclosed (s : sodg) : Prop :=
  forall u a w, u < cap_of s -> tag s u <> 0 -> In (a, w) (edg s u) ->
                w < cap_of s /\ tag s w <> 0.

(** ** small inversion lemmas *)

Lemma push_member_inv g b v g' :
  push_member g b v = Ok g' -> g' = set_members g b (members g b ++ [v]).
Proof.
  unfold push_member. destruct (chk_b g b); cbn [obind]; try discriminate.
  destruct (_ <? _); [|discriminate]. intros H; injection H as <-. reflexivity.
Qed.

Lemma add_store_inv g b k g' :
  add_store g b k = Ok g' -> g' = set_store g b (store g b + k).
Proof.
  unfold add_store. destruct (chk_b g b); cbn [obind]; try discriminate.
  intros H; injection H as <-. reflexivity.
Qed.

Lemma mm_get_some_in e a w : mm_get e a = Some w -> In (a, w) e.
Proof.
  induction e as [|[k x] t IH]; cbn [mm_get]; [discriminate|].
  destruct (label_eqb k a) eqn:E.
  - apply label_eqb_spec in E. subst k. intros H; injection H as ->. left; reflexivity.
  - intros H. right. apply IH. exact H.
Qed.

Lemma mm_replace_in e a v : forall e' b x,
  mm_replace e a v = Some e' -> In (b, x) e' -> In (b, x) e \/ x = v.
Proof.
  induction e as [|[k w] t IH]; intros e' b x H Hi; cbn [mm_replace] in H; [discriminate|].
  destruct (label_eqb k a).
  - injection H as <-. destruct Hi as [Hi|Hi].
    + injection Hi as _ <-. right; reflexivity.
    + left. right. exact Hi.
  - destruct (mm_replace t a v) as [t'|] eqn:R; [|discriminate]. injection H as <-.
    destruct Hi as [Hi|Hi].
    + left. left. exact Hi.
    + destruct (IH t' b x eq_refl Hi) as [Q|Q]; [left; right; exact Q|right; exact Q].
Qed.

Lemma mm_insert_in n e a v e' b x :
  mm_insert n e a v = Ok e' -> In (b, x) e' -> In (b, x) e \/ x = v.
Proof.
  unfold mm_insert. destruct (mm_replace e a v) as [e1|] eqn:R.
  - intros H; injection H as <-. eapply mm_replace_in; eauto.
  - destruct (_ <? _); [|discriminate]. intros H; injection H as <-.
    intros Hi. apply in_app_iff in Hi as [Hi|[Hi|[]]]; [left; exact Hi|].
    injection Hi as _ <-. right; reflexivity.
Qed.

(** ** what the four calls do to presence, edges and the sentinel of slot 0,
    read off a successful call (no precondition beyond presence) *)

Lemma put_facts g v d g' :
  op_put g v d = Ok g' ->
  cap_of g' = cap_of g /\ members g' 0 = members g 0
  /\ (forall w, tag g' w = tag g w) /\ (forall w, edg g' w = edg g w).
Proof.
  unfold op_put. destruct (chk_v g v) as [u| | |] eqn:C; cbn [obind]; try discriminate.
  destruct u. apply chk_v_inv in C.
  set (g1 := set_vtx g v _).
  assert (A : cap_of g1 = cap_of g /\ members g1 0 = members g 0
              /\ (forall w, tag g1 w = tag g w) /\ (forall w, edg g1 w = edg g w)).
  { unfold g1. split; [apply cap_set_vtx|]. split; [reflexivity|].
    split; intros w; unfold tag, edg; rewrite vtx_set_vtx;
      destruct (Nat.eqb_spec v w) as [->|]; cbn [andb]; try reflexivity;
      destruct (w <? cap_of g); reflexivity. }
  destruct (_ && _).
  - intros H. apply add_store_inv in H. subst g'. exact A.
  - intros H; injection H as <-. exact A.
Qed.

Lemma next_id_facts g g' id :
  op_next_id g = Ok (g', id) ->
  id < cap_of g /\ tag g id = 0
  /\ cap_of g' = cap_of g /\ members g' 0 = members g 0
  /\ (forall w, tag g' w = tag g w) /\ (forall w, edg g' w = edg g w).
Proof.
  unfold op_next_id. destruct (find _ _) as [x|] eqn:F; [|discriminate].
  apply find_some in F as [Hin Hp]. unfold iota in Hin. apply in_seq in Hin.
  apply andb_true_iff in Hp as [Hp _]. apply Nat.eqb_eq in Hp.
  destruct (_ <? _); intros H; injection H as <- <-; (split; [lia|]); (split; [exact Hp|]);
    repeat split; reflexivity.
Qed.

Lemma add_facts g v g' :
  op_add g v = Ok g' -> tag g v = 0 ->
  v < cap_of g /\ cap_of g' = cap_of g /\ members g' 0 = members g 0
  /\ (forall w, tag g' w = if w =? v then 1 else tag g w)
  /\ (forall w, edg g' w = if w =? v then [] else edg g w).
Proof.
  intros H Z. assert (Hv : v < cap_of g).
  { unfold op_add in H. destruct (chk_v g v) as [u| | |] eqn:C; cbn [obind] in H; try discriminate.
    destruct u. apply chk_v_inv in C. exact C. }
  destruct (add_effect g v Hv) as (g1 & A & T & _ & _ & E & M & _ & X).
  rewrite A in H. injection H as <-.
  split; [exact Hv|]. split; [apply X|]. split; [apply M|].
  split; intros w; [rewrite T|rewrite E]; rewrite Z; cbn [Nat.eqb]; rewrite andb_true_r; reflexivity.
Qed.

(** [bind] between two present vertices (possibly the same one) *)
Lemma bind_facts n g v1 v2 a g' :
  op_bind n g v1 v2 a = Ok g' ->
  members g 0 <> [] -> tag g v1 <> 0 -> tag g v2 <> 0 ->
  cap_of g' = cap_of g /\ members g' 0 = members g 0
  /\ (forall w, tag g' w = 0 <-> tag g w = 0)
  /\ exists e', (forall b x, In (b, x) e' -> In (b, x) (edg g v1) \/ x = v2)
                /\ forall w, edg g' w = if w =? v1 then e' else edg g w.
Proof.
  intros H M0 T1 T2.
  pose proof (tag_nonzero_lt g v1 T1) as L1. pose proof (tag_nonzero_lt g v2 T2) as L2.
  split; [apply (op_bind_shape n g v1 v2 a g' H)|].
  unfold op_bind in H. rewrite !chk_v_ok in H by assumption. cbn [obind] in H.
  destruct (mm_insert n (edg g v1) a v2) as [e'| | |] eqn:I; cbn [obind] in H; try discriminate.
  assert (Q : members g' 0 = members g 0
              /\ (forall w, tag g' w = 0 <-> tag g w = 0)
              /\ forall w, edg g' w = if w =? v1 then e' else edg g w).
  { unfold BRANCH_STATIC in H.
    destruct (Nat.eqb_spec (tag g v1) 1) as [E1|N1].
    - destruct (Nat.eqb_spec (tag g v2) 1) as [E2|N2].
      + destruct (first_empty (set_edges g v1 e')) as [b|] eqn:F.
        * destruct (first_empty_spec _ _ F) as (_ & Hb & _).
          change (members (set_edges g v1 e') b) with (members g b) in Hb.
          assert (Hb0 : b <> 0) by (intros ->; contradiction).
          destruct (push_member _ _ _) as [g4| | |] eqn:P; cbn [obind] in H; try discriminate.
          apply push_member_inv in P. apply add_store_inv in H. subst g' g4.
          repeat split; intros; sodg_rw; nat_tests; try reflexivity; try lia.
        * destruct (push_member _ _ _) as [g4| | |] eqn:P; cbn [obind] in H; try discriminate.
          apply push_member_inv in P. apply add_store_inv in H. subst g' g4.
          repeat split; intros; sodg_rw; nat_tests; try reflexivity; try lia.
      + destruct (push_member _ _ _) as [g4| | |] eqn:P; cbn [obind] in H; try discriminate.
        apply push_member_inv in P. apply add_store_inv in H. subst g' g4.
        repeat split; intros; sodg_rw; nat_tests; try reflexivity; try lia.
    - rewrite tag_set_edges in H. destruct (Nat.eqb_spec (tag g v2) 1) as [E2|N2].
      + destruct (push_member _ _ _) as [g4| | |] eqn:P; cbn [obind] in H; try discriminate.
        apply push_member_inv in P. apply add_store_inv in H. subst g' g4.
        repeat split; intros; sodg_rw; nat_tests; try reflexivity; try lia.
      + injection H as <-.
        repeat split; intros; sodg_rw; nat_tests; try reflexivity; try lia. }
  destruct Q as (Q1 & Q2 & Q3). split; [exact Q1|]. split; [exact Q2|].
  exists e'. split; [|exact Q3]. intros b x Hi. eapply mm_insert_in; eauto.
Qed.

(** ** closedness is kept *)

Lemma lclosed_bind n g v1 v2 a g' :
  op_bind n g v1 v2 a = Ok g' ->
  members g 0 <> [] -> tag g v1 <> 0 -> tag g v2 <> 0 -> lclosed g ->
  cap_of g' = cap_of g /\ members g' 0 <> []
  /\ (forall w, tag g' w = 0 <-> tag g w = 0) /\ lclosed g'.
Proof.
  intros H M0 T1 T2 HC.
  destruct (bind_facts n g v1 v2 a g' H M0 T1 T2) as (C & M & T & e' & He & E).
  split; [exact C|]. split; [rewrite M; exact M0|]. split; [exact T|].
  intros u b w Hu Ht Hi. rewrite C in *. rewrite T in Ht.
  assert (P : tag g w <> 0).
  { rewrite E in Hi. destruct (Nat.eqb_spec u v1) as [->|Hne].
    - destruct (He b w Hi) as [Q| ->]; [|exact T2]. apply (HC v1 b w Hu Ht Q).
    - apply (HC u b w Hu Ht Hi). }
  split; [apply tag_nonzero_lt; exact P|]. rewrite T. exact P.
Qed.

(** the state relation every piece of [merge_rec] establishes *)
Record keeps (s s' : sodg) : Prop := {
  k_cap : cap_of s' = cap_of s;
  k_mono : forall u, tag s u <> 0 -> tag s' u <> 0;
  k_m0 : members s' 0 <> [];
  k_closed : lclosed s'
}.

Lemma keeps_refl s : members s 0 <> [] -> lclosed s -> keeps s s.
Proof. intros M C. split; auto. Qed.

Lemma keeps_trans a b c : keeps a b -> keeps b c -> keeps a c.
Proof.
  intros [A1 A2 A3 A4] [B1 B2 B3 B4]. split; auto. congruence.
Qed.

Lemma attach_keeps n s left a mt sa t :
  members s 0 <> [] -> lclosed s -> tag s left <> 0 ->
  (forall x, mt = Some x -> tag s x <> 0) ->
  attach n s left a (mm_get (edg s left) a) mt = Ok (sa, t) ->
  keeps s sa /\ tag sa t <> 0.
Proof.
  intros M0 HC TL Hmt H. unfold attach in H.
  destruct (mm_get (edg s left) a) as [k|] eqn:K.
  - injection H as <- <-. split; [apply keeps_refl; assumption|].
    apply mm_get_some_in in K. apply (HC left a k (tag_nonzero_lt _ _ TL) TL K).
  - destruct mt as [x|].
    + apply obind_ok in H as (s1 & Hb & H). injection H as <- <-.
      pose proof (Hmt x eq_refl) as Tx.
      destruct (lclosed_bind n s left x a s1 Hb M0 TL Tx HC) as (C & M & T & HC').
      split; [split; auto|].
      * intros u Hu. rewrite T. exact Hu.
      * rewrite T. exact Tx.
    + apply obind_ok in H as ([s1 id] & Hn & H). cbn [fst snd] in H.
      apply obind_ok in H as (s2 & Ha & H). apply obind_ok in H as (s3 & Hb & H).
      injection H as <- <-.
      destruct (next_id_facts s s1 id Hn) as (Li & Zi & C1 & M1 & T1 & E1).
      assert (Zi1 : tag s1 id = 0) by (rewrite T1; exact Zi).
      destruct (add_facts s1 id s2 Ha Zi1) as (_ & C2 & M2 & T2 & E2).
      assert (M02 : members s2 0 <> []) by (rewrite M2, M1; exact M0).
      assert (TL2 : tag s2 left <> 0).
      { rewrite T2, T1. destruct (left =? id); [discriminate|exact TL]. }
      assert (Ti2 : tag s2 id <> 0) by (rewrite T2, Nat.eqb_refl; discriminate).
      assert (HC2 : lclosed s2).
      { intros u b w Hu Ht Hi. rewrite C2, C1 in *. rewrite E2 in Hi. rewrite T2 in Ht. rewrite T2.
        destruct (Nat.eqb_spec u id) as [->|Hne]; [destruct Hi|].
        rewrite E1 in Hi. rewrite T1 in Ht. destruct (HC u b w Hu Ht Hi) as [Lw Tw].
        split; [exact Lw|]. destruct (w =? id); [discriminate|]. rewrite T1. exact Tw. }
      destruct (lclosed_bind n s2 left id a s3 Hb M02 TL2 Ti2 HC2) as (C3 & M3 & T3 & HC3).
      split; [split; auto|].
      * congruence.
      * intros u Hu. rewrite T3, T2. destruct (u =? id); [discriminate|]. rewrite T1. exact Hu.
      * rewrite T3. exact Ti2.
Qed.

(** ** the invariant over [merge_rec] *)

Definition imgs_present (s : sodg) (m : mapping) : Prop :=
  forall v w, In (v, w) m -> tag s w <> 0.

Lemma imgs_mono s s' m :
  (forall u, tag s u <> 0 -> tag s' u <> 0) -> imgs_present s m -> imgs_present s' m.
Proof. intros Hm Hi v w Hin. apply Hm. eapply Hi; eauto. Qed.

Definition rec_ok (n : nat) (h : sodg) (f : nat) : Prop :=
  forall s left right m s' m',
    members s 0 <> [] -> lclosed s -> tag s left <> 0 -> imgs_present s m ->
    merge_rec f n h s left right m = Ok (s', m') ->
    keeps s s' /\ imgs_present s' m'.

Lemma op_kid_inv s v a k : op_kid s v a = Ok k -> k = mm_get (edg s v) a.
Proof.
  unfold op_kid. destruct (chk_v s v); cbn [obind]; try discriminate.
  intros H; injection H as <-. reflexivity.
Qed.

Lemma mgo_present n h f left :
  rec_ok n h f ->
  forall es s m s' m',
    members s 0 <> [] -> lclosed s -> tag s left <> 0 -> imgs_present s m ->
    mgo (merge_rec f n h) n left es s m = Ok (s', m') ->
    keeps s s' /\ imgs_present s' m'.
Proof.
  intros HR es. induction es as [|[a to] rest IH]; intros s m s' m' M0 HC TL HI H; cbn [mgo] in H.
  - injection H as <- <-. split; [apply keeps_refl; assumption|exact HI].
  - apply obind_ok in H as (k & Hk & H). apply op_kid_inv in Hk. subst k.
    apply obind_ok in H as ([sa t] & Hat & H). cbn [fst snd] in H.
    apply obind_ok in H as ([sb mb] & Hrec & H). cbn [fst snd] in H.
    destruct (attach_keeps n s left a (map_get m to) sa t M0 HC TL) with (2 := Hat) as (Ka & Ta).
    { intros x Hx. apply map_get_some_in in Hx. eapply HI; eauto. }
    destruct (HR sa t to m sb mb (k_m0 _ _ Ka) (k_closed _ _ Ka) Ta
                 (imgs_mono s sa m (k_mono _ _ Ka) HI) Hrec) as (Kb & Ib).
    assert (Kab : keeps s sb) by (eapply keeps_trans; eauto).
    destruct (IH sb mb s' m' (k_m0 _ _ Kb) (k_closed _ _ Kb) (k_mono _ _ Kab left TL) Ib H)
      as (Kc & Ic).
    split; [eapply keeps_trans; eauto|exact Ic].
Qed.

Lemma merge_rec_present n h : forall f, rec_ok n h f.
Proof.
  induction f as [|f IHf]; intros s left right m s' m' M0 HC TL HI H; [discriminate|].
  rewrite merge_rec_S in H. destruct (map_get m right) as [x|].
  - injection H as <- <-. split; [apply keeps_refl; assumption|exact HI].
  - apply obind_ok in H as (u1 & _ & H).
    apply obind_ok in H as (s1 & Hput & H).
    apply obind_ok in H as (u2 & _ & H).
    apply obind_ok in H as ([s2 m2] & Hgo & H).
    apply obind_ok in H as (u3 & _ & H). injection H as <- <-.
    assert (K1 : keeps s s1 /\ forall w, tag s1 w = tag s w).
    { destruct (has_data h right).
      - destruct (put_facts s left (dat h right) s1 Hput) as (C & M & T & E).
        split; [|exact T]. split.
        + exact C.
        + intros u Hu. rewrite T. exact Hu.
        + rewrite M. exact M0.
        + intros u b w Hu Ht Hi. rewrite C in *. rewrite T in *. rewrite E in Hi.
          apply (HC u b w Hu Ht Hi).
      - injection Hput as <-. split; [apply keeps_refl; assumption|reflexivity]. }
    destruct K1 as (K1 & T1).
    assert (I1 : imgs_present s1 ((right, left) :: m)).
    { intros v w [Hin|Hin].
      - injection Hin as _ <-. rewrite T1. exact TL.
      - rewrite T1. eapply HI; eauto. }
    assert (TL1 : tag s1 left <> 0) by (rewrite T1; exact TL).
    destruct (mgo_present n h f left IHf _ _ _ _ _ (k_m0 _ _ K1) (k_closed _ _ K1) TL1 I1 Hgo)
      as (K2 & I2).
    split; [eapply keeps_trans; eauto|exact I2].
Qed.

(** ** the theorems *)

(** general form: of the representation invariant only the sentinel of group
    slot 0 is needed *)
Theorem merge_present_gen : forall n s h left right s' m',
  members s 0 <> [] -> lclosed s -> tag s left <> 0 ->
  op_merge_mapped n s h left right = Ok (s', m') ->
  (forall v w, map_get m' v = Some w -> w < cap_of s' /\ tag s' w <> 0)
  /\ lclosed s' /\ members s' 0 <> [] /\ cap_of s' = cap_of s
  /\ (forall u, tag s u <> 0 -> tag s' u <> 0).
Proof.
  intros n s h left right s' m' M0 HC TL H. unfold op_merge_mapped in H.
  destruct (merge_rec_present n h (cap_of h + 2) s left right [] s' m' M0 HC TL) with (2 := H) as ([K1 K2 K3 K4] & I).
  { intros v w []. }
  split; [|auto].
  intros v w Hg. apply map_get_some_in in Hg. pose proof (I v w Hg) as P.
  split; [apply tag_nonzero_lt; exact P|exact P].
Qed.

Lemma inv_m0 n s : Inv n s -> members s 0 <> [].
Proof. intros HI. rewrite (i_m0 HI). discriminate. Qed.

Theorem merge_images_present : forall n s h left right s' m',
  Inv n s -> lclosed s -> left < cap_of s -> tag s left <> 0 ->
  op_merge_mapped n s h left right = Ok (s', m') ->
  forall v w, map_get m' v = Some w -> w < cap_of s' /\ tag s' w <> 0.
Proof.
  intros n s h left right s' m' HI HC _ TL H.
  apply (merge_present_gen n s h left right s' m' (inv_m0 n s HI) HC TL H).
Qed.

Theorem merge_keeps_lclosed : forall n s h left right s' m',
  Inv n s -> lclosed s -> left < cap_of s -> tag s left <> 0 ->
  op_merge_mapped n s h left right = Ok (s', m') ->
  lclosed s' /\ cap_of s' = cap_of s /\ (forall u, u < cap_of s -> tag s u <> 0 -> tag s' u <> 0).
Proof.
  intros n s h left right s' m' HI HC _ TL H.
  destruct (merge_present_gen n s h left right s' m' (inv_m0 n s HI) HC TL H) as (_ & A & _ & B & C).
  split; [exact A|]. split; [exact B|]. intros u _ Hu. apply C. exact Hu.
Qed.

(** in terms of the verdict of [merge]: when [merge] says [Ok(())], every
    present vertex of the right graph has an image, and it is present *)
Theorem merge_ok_images_present : forall n s h left right s',
  Inv n s -> lclosed s -> tag s left <> 0 -> hclosed h right ->
  op_merge n s h left right = Ok (s', None) ->
  exists m', op_merge_mapped n s h left right = Ok (s', m')
    /\ forall v, tag h v <> 0 ->
         exists w, map_get m' v = Some w /\ w < cap_of s' /\ tag s' w <> 0.
Proof.
  intros n s h left right s' HI HC TL Hh H.
  destruct (merge_ok_mapped n s h left right s' Hh H) as (m' & Hm & Hall).
  exists m'. split; [exact Hm|]. intros v Hv.
  destruct (map_get m' v) as [w|] eqn:G; [|exfalso; apply (Hall v Hv); exact G].
  exists w. split; [reflexivity|].
  apply (merge_images_present n s h left right s' m' HI HC (tag_nonzero_lt _ _ TL) TL Hm v w G).
Qed.

(** the verdict does not matter for the presence of the images that exist *)
Theorem merge_any_images_present : forall n s h left right s' r,
  Inv n s -> lclosed s -> tag s left <> 0 ->
  op_merge n s h left right = Ok (s', r) ->
  exists m', op_merge_mapped n s h left right = Ok (s', m')
    /\ forall v w, map_get m' v = Some w -> w < cap_of s' /\ tag s' w <> 0.
Proof.
  intros n s h left right s' r HI HC TL H.
  apply op_merge_inv in H as (m' & Hm & _). exists m'. split; [exact Hm|].
  apply (merge_images_present n s h left right s' m' HI HC (tag_nonzero_lt _ _ TL) TL Hm).
Qed.

(** ** a computable check of [lclosed] (for the examples) *)

Definition lclosedb (s : sodg) : bool :=
  forallb (fun u => (tag s u =? 0)
                    || forallb (fun e : label * nat => negb (tag s (snd e) =? 0)) (edg s u))
          (iota (cap_of s)).

Lemma lclosedb_lclosed s : lclosedb s = true <-> lclosed s.
Proof.
  unfold lclosedb. rewrite forallb_forall. split.
  - intros H u a w Hu Ht Hi.
    assert (Hin : In u (iota (cap_of s))) by (unfold iota; apply in_seq; lia).
    specialize (H u Hin). apply orb_true_iff in H as [H|H].
    + apply Nat.eqb_eq in H. contradiction.
    + rewrite forallb_forall in H. specialize (H (a, w) Hi). cbn [snd] in H.
      apply negb_true_iff, Nat.eqb_neq in H. split; [apply tag_nonzero_lt; exact H|exact H].
  - intros H u Hin. unfold iota in Hin. apply in_seq in Hin.
    destruct (Nat.eqb_spec (tag s u) 0) as [Z|NZ]; [reflexivity|]. cbn [orb].
    apply forallb_forall. intros [a w] Hi. cbn [snd].
    apply negb_true_iff, Nat.eqb_neq. apply (H u a w); [lia|exact NZ|exact Hi].
Qed.

(** ** non-vacuity *)

(** left: 0 -a-> 1 (one group), 1 -c-> 4 and a free vertex 5;
    right: the tree 0 -a-> 1, 0 -b-> 2, 1 -c-> 3, 1 -d-> 4 with data on 2 *)
Definition exP_s_ops : list op :=
  [OAdd 0; OAdd 1; OAdd 4; OAdd 5; OBind 0 1 (Alpha 0); OBind 1 4 (Alpha 2)].
Definition exP_h_ops : list op :=
  [OAdd 0; OAdd 1; OAdd 2; OAdd 3; OAdd 4;
   OBind 0 1 (Alpha 0); OBind 0 2 (Alpha 1); OBind 1 3 (Alpha 2); OBind 1 4 (Alpha 3);
   OPut 2 (HVector [7%N])].
Definition exP_s : sodg := build 16 8 exP_s_ops.
Definition exP_h : sodg := build 16 8 exP_h_ops.

Example merge_present_ex_hyps :
  Inv 16 exP_s /\ lclosed exP_s /\ 0 < cap_of exP_s /\ tag exP_s 0 <> 0 /\ hclosed exP_h 0.
Proof.
  split; [apply (build_inv 16 8 exP_s_ops); vm_compute; reflexivity|].
  split; [apply lclosedb_lclosed; vm_compute; reflexivity|].
  split; [vm_compute; lia|]. split; [vm_compute; discriminate|].
  apply hclosedb_hclosed. vm_compute. reflexivity.
Qed.

(** a is found (1 -> 1), c is found below it (3 -> 4), b and d are grafted on
    fresh vertices (4 -> 2, 2 -> 3); all four images are present afterwards *)
Example merge_present_ex_result :
  exists s',
    op_merge 16 exP_s exP_h 0 0 = Ok (s', None)
    /\ op_merge_mapped 16 exP_s exP_h 0 0 = Ok (s', [(2, 3); (4, 2); (3, 4); (1, 1); (0, 0)])
    /\ op_keys exP_s = [0; 1; 4; 5] /\ op_keys s' = [0; 1; 2; 3; 4; 5]
    /\ lclosedb s' = true /\ cap_of s' = cap_of exP_s.
Proof. eexists. vm_compute. repeat split. Qed.

(** ** without [lclosed] the conclusion fails *)

(** left: two groups, 0 -a-> 1 and 2 -a-> 3, then the cross edge 0 -b-> 2
    (both ends grouped: only the edge is recorded, the groups stay apart);
    put + data on 2 collects the group {2, 3}; vertex 0 keeps its edge b to the
    absent vertex 2.  right: 0 -b-> 1. *)
Definition exD_s_ops : list op :=
  [OAdd 0; OAdd 1; OAdd 2; OAdd 3;
   OBind 0 1 (Alpha 0); OBind 2 3 (Alpha 0); OBind 0 2 (Alpha 1);
   OPut 2 (HVector [1%N]); OData 2].
Definition exD_h_ops : list op := [OAdd 0; OAdd 1; OBind 0 1 (Alpha 1)].
Definition exD_s : sodg := build 16 8 exD_s_ops.
Definition exD_h : sodg := build 16 8 exD_h_ops.

(** every hypothesis of [merge_images_present] but [lclosed] holds ... *)
Example merge_dangling_hyps :
  Inv 16 exD_s /\ 0 < cap_of exD_s /\ tag exD_s 0 <> 0 /\ hclosed exD_h 0
  /\ lclosedb exD_s = false
  /\ op_keys exD_s = [0; 1] /\ edg exD_s 0 = [(Alpha 0, 1); (Alpha 1, 2)] /\ tag exD_s 2 = 0.
Proof.
  split; [apply (build_inv 16 8 exD_s_ops); vm_compute; reflexivity|].
  split; [vm_compute; lia|]. split; [vm_compute; discriminate|].
  split; [apply hclosedb_hclosed; vm_compute; reflexivity|].
  vm_compute. repeat split.
Qed.

Example merge_dangling_not_lclosed : ~ lclosed exD_s.
Proof. intros H. apply lclosedb_lclosed in H. vm_compute in H. discriminate. Qed.

(** ... merge answers [Ok(())], and the image of the right vertex 1 is the
    absent left vertex 2 *)
Example merge_dangling_image_absent :
  exists s' m',
    op_merge 16 exD_s exD_h 0 0 = Ok (s', None)
    /\ op_merge_mapped 16 exD_s exD_h 0 0 = Ok (s', m')
    /\ tag exD_h 1 <> 0 /\ map_get m' 1 = Some 2 /\ tag s' 2 = 0
    /\ op_keys s' = [0; 1].
Proof. do 2 eexists. vm_compute. repeat split. discriminate. Qed.

(** ** why [Inv] cannot be carried through the proof: merge binds a vertex to
    itself when the right graph has a loop, and the group bookkeeping then
    lists that vertex twice *)
Definition exL_s : sodg := build 16 8 [OAdd 0].
Definition exL_h : sodg := build 16 8 [OAdd 0; OBind 0 0 (Alpha 0)].

Lemma twice_not_inv n s : members s 2 = [0; 0] -> ~ Inv n s.
Proof.
  intros M HI. assert (N : NoDup (members s 2)) by (apply (i_nodup HI); lia).
  rewrite M in N. inversion N as [|x l Hx _]. apply Hx. left; reflexivity.
Qed.

Example merge_self_bind :
  Inv 16 exL_s /\ lclosed exL_s /\ tag exL_s 0 <> 0 /\
  exists s' m',
    op_merge 16 exL_s exL_h 0 0 = Ok (s', None)
    /\ op_merge_mapped 16 exL_s exL_h 0 0 = Ok (s', m')
    /\ m' = [(0, 0)] /\ edg s' 0 = [(Alpha 0, 0)]
    /\ members s' 2 = [0; 0] /\ ~ Inv 16 s'.
Proof.
  split; [apply (build_inv 16 8 [OAdd 0]); vm_compute; reflexivity|].
  split; [apply lclosedb_lclosed; vm_compute; reflexivity|].
  split; [vm_compute; discriminate|].
  do 2 eexists. split; [vm_compute; reflexivity|]. split; [vm_compute; reflexivity|].
  split; [reflexivity|]. split; [vm_compute; reflexivity|].
  split; [vm_compute; reflexivity|]. apply twice_not_inv. vm_compute. reflexivity.
Qed.

Print Assumptions merge_present_gen.
Print Assumptions merge_images_present.
Print Assumptions merge_keeps_lclosed.
Print Assumptions merge_ok_images_present.
Print Assumptions merge_any_images_present.
Print Assumptions lclosedb_lclosed.
Print Assumptions merge_present_ex_hyps.
Print Assumptions merge_present_ex_result.
Print Assumptions merge_dangling_hyps.
Print Assumptions merge_dangling_not_lclosed.
Print Assumptions merge_dangling_image_absent.
Print Assumptions merge_self_bind.
