(** * SliceTwice: slicing a slice changes nothing.

    [slice(v)] of the graph [slice(v)] returned has the same present vertices
    and the same edges, for every enumeration order of the two calls: the
    sliced graph is closed under its own reachability, stays within the bound
    and has no self loop, so [slice_correct] applies to it again, and
    reachability in the slice is reachability in the source
    ([reach_slice_iff]).  Proofs only combine [slice_correct] with itself. *)

From Coq Require Import List Arith Lia.
From Sodg Require Import Base Sodg Facts Inv Slice Reach SliceFacts SliceFacts2.
Import ListNotations.

Section Twice.
  Variables (g ng : sodg) (v : nat).
  Hypothesis Hedg :
    forall w a t, In (a, t) (edg ng w) <-> reach ptrue g v w /\ In (a, t) (edg g w).

  Lemma reach_slice_iff w : reach ptrue ng v w <-> reach ptrue g v w.
  Proof.
    split; intros H.
    - induction H as [|u a w Hu IH Hin Hp]; [apply reach_refl|].
      apply Hedg in Hin. destruct Hin as [_ Hin].
      apply (reach_step ptrue g v u a w); [exact IH|exact Hin|reflexivity].
    - induction H as [|u a w Hu IH Hin Hp]; [apply reach_refl|].
      apply (reach_step ptrue ng v u a w); [exact IH| |reflexivity].
      apply Hedg. split; assumption.
  Qed.
End Twice.

Theorem slice_twice n order order' g v :
  Inv n g -> (forall l, Permutation (order l) l) -> (forall l, Permutation (order' l) l) ->
  closed g v ->
  (forall rs, NoDup rs -> (forall u, In u rs -> reach ptrue g v u) -> length rs <= 14) ->
  (forall u a, reach ptrue g v u -> ~ In (a, u) (edg g u)) ->
  exists ng ng',
    op_slice n order g v = Ok ng /\ op_slice n order' ng v = Ok ng'
    /\ (forall w, tag ng' w <> 0 <-> tag ng w <> 0)
    /\ (forall w a t, In (a, t) (edg ng' w) <-> In (a, t) (edg ng w))
    /\ (forall w, tag ng w <> 0 -> edg ng' w = edg ng w)
    /\ (forall w, reach ptrue ng' v w <-> reach ptrue g v w)
    /\ (forall w, prs ng' w = PEmpty).
Proof.
  intros HI Ho Ho' Hc Hb Hs.
  destruct (slice_correct n order g v HI Ho Hc Hb Hs)
    as (ng & Hok & HI1 & Hcap & Htag & Hedg & Hsame & Hprs).
  pose proof (reach_slice_iff g ng v Hedg) as Hr.
  assert (Hc1 : closed ng v).
  { apply closed_unfold. apply closed_unfold in Hc. destruct Hc as [Hv Hc].
    split; [rewrite Hcap; exact Hv|].
    intros u a w Hu Hin. rewrite Hcap.
    apply Hedg in Hin. destruct Hin as [Hgu Hin]. exact (Hc u a w Hgu Hin). }
  assert (Hb1 : forall rs, NoDup rs -> (forall u, In u rs -> reach ptrue ng v u) -> length rs <= 14).
  { intros rs Hnd Hall. apply Hb; [exact Hnd|]. intros u Hu. apply Hr. apply Hall. exact Hu. }
  assert (Hs1 : forall u a, reach ptrue ng v u -> ~ In (a, u) (edg ng u)).
  { intros u a Hu Hin. apply Hedg in Hin. destruct Hin as [Hgu Hin]. exact (Hs u a Hgu Hin). }
  destruct (slice_correct n order' ng v HI1 Ho' Hc1 Hb1 Hs1)
    as (ng' & Hok' & HI2 & Hcap' & Htag' & Hedg' & Hsame' & Hprs').
  exists ng, ng'. split; [exact Hok|]. split; [exact Hok'|].
  split.
  { intros w. rewrite Htag', Htag. apply Hr. }
  split.
  { intros w a t. rewrite Hedg'. split.
    - intros [_ H]. exact H.
    - intros H. split; [|exact H]. apply Hr. apply Hedg in H. destruct H as [H _]. exact H. }
  split.
  { intros w Hw. apply Hsame'. apply Hr. apply Htag. exact Hw. }
  split.
  { intros w. rewrite (reach_slice_iff ng ng' v Hedg' w). apply Hr. }
  exact Hprs'.
Qed.

Print Assumptions slice_twice.
