(** * SliceFacts: the closure loop of [slice_some] computes exactly the set of
    vertices reachable along accepted edges, whatever order [HashSet::drain]
    yields, and stops within the fuel of the model -- reachability half of
    property C13. *)

From Sodg Require Export Reach.

(** ** one pass over the edges of a vertex *)

Lemma scan_edges_spec p u es : forall done todo done' todo',
  scan_edges p u es done todo = (done', todo') ->
  exists new,
    done' = new ++ done /\ todo' = new ++ todo /\ NoDup new
    /\ (forall x, In x new -> ~ In x done)
    /\ (forall x, In x new -> exists a, In (a, x) es /\ p u x a = true)
    /\ (forall a w, In (a, w) es -> p u w a = true -> In w done').
Proof.
  induction es as [|[a to] rest IH]; intros done todo done' todo' H; simpl in H.
  - inversion H; subst. exists []. simpl. split; [reflexivity|]. split; [reflexivity|].
    split; [constructor|]. split; [intros x []|]. split; [intros x []|]. intros a w [].
  - destruct (mem to done) eqn:M.
    + apply mem_In in M.
      destruct (IH _ _ _ _ H) as (new & E1 & E2 & N & D & W & C).
      exists new. repeat split; auto.
      * intros x Hx. destruct (W x Hx) as (b & Hb & Pb). exists b. split; auto. right; exact Hb.
      * intros b w [Hb|Hb] Pb; [|eapply C; eauto].
        inversion Hb; subst. apply in_or_app. right. exact M.
    + apply mem_false in M. destruct (p u to a) eqn:P; cbn [negb] in H.
      * destruct (IH _ _ _ _ H) as (new & E1 & E2 & N & D & W & C).
        exists (new ++ [to]). rewrite <- !app_assoc. cbn [app].
        split; [exact E1|]. split; [exact E2|]. split; [|split; [|split]].
        -- apply nodup_app; auto.
           ++ constructor; [intros []|constructor].
           ++ intros x Hx [Ex|[]]. subst x. apply (D to Hx). left; reflexivity.
        -- intros x Hx. apply in_app_iff in Hx as [Hx|[<-|[]]]; auto.
           intros H'. apply (D x Hx). right; exact H'.
        -- intros x Hx. apply in_app_iff in Hx as [Hx|[<-|[]]].
           ++ destruct (W x Hx) as (b & Hb & Pb). exists b. split; auto. right; exact Hb.
           ++ exists a. split; auto. left; reflexivity.
        -- intros b w [Hb|Hb] Pb; [|eapply C; eauto].
           inversion Hb; subst. apply in_or_app. right. left. reflexivity.
      * destruct (IH _ _ _ _ H) as (new & E1 & E2 & N & D & W & C).
        exists new. repeat split; auto.
        -- intros x Hx. destruct (W x Hx) as (b & Hb & Pb). exists b. split; auto. right; exact Hb.
        -- intros b w [Hb|Hb] Pb; [|eapply C; eauto].
           inversion Hb; subst. congruence.
Qed.

(** ** one round: the [for v in before] loop *)

Lemma scan_batch_spec p g before : forall done todo,
  (forall x, In x before -> x < cap_of g) -> NoDup done ->
  exists done' new,
    scan_batch p g before done todo = Ok (done', new ++ todo)
    /\ NoDup done' /\ NoDup new
    /\ incl done done' /\ incl before done' /\ incl new done'
    /\ (forall x, In x new -> ~ In x done)
    /\ (forall x, In x new -> exists u a, In u before /\ In (a, x) (edg g u) /\ p u x a = true)
    /\ (forall x, In x done' -> In x done \/ In x before \/ In x new)
    /\ (forall u a w, In u before -> In (a, w) (edg g u) -> p u w a = true -> In w done')
    /\ length done + length new <= length done'.
Proof.
  induction before as [|v rest IH]; intros done todo Hlt Hnd.
  - exists done, []. simpl. repeat split; auto; try constructor;
      try (intros x []); try (intros x Hx; exact Hx); try (intros u a w []); try lia.
  - cbn [scan_batch]. rewrite chk_v_ok by (apply Hlt; left; reflexivity). cbn [obind].
    set (done1 := if mem v done then done else v :: done).
    assert (Hnd1 : NoDup done1).
    { unfold done1. destruct (mem v done) eqn:M; auto. constructor; auto. apply mem_false. exact M. }
    assert (Hi1 : incl done done1).
    { unfold done1. destruct (mem v done); intros x Hx; auto. right; exact Hx. }
    assert (Hv1 : In v done1).
    { unfold done1. destruct (mem v done) eqn:M; [apply mem_In; exact M | left; reflexivity]. }
    assert (Hd1 : forall x, In x done1 -> x = v \/ In x done).
    { unfold done1. destruct (mem v done); intros x Hx; auto. destruct Hx as [<-|Hx]; auto. }
    assert (Hl1 : length done <= length done1).
    { unfold done1. destruct (mem v done); simpl; lia. }
    destruct (scan_edges p v (edg g v) done1 todo) as [d2 t2] eqn:E.
    destruct (scan_edges_spec p v (edg g v) _ _ _ _ E) as (new1 & E1 & E2 & N1 & D1 & W1 & C1).
    subst d2 t2.
    assert (Hnd2 : NoDup (new1 ++ done1)) by (apply nodup_app; auto).
    destruct (IH (new1 ++ done1) (new1 ++ todo)) as
      (done' & new2 & Eq & A1 & A2 & A3 & A4 & A5 & A6 & A7 & A8 & A9 & A10); auto.
    { intros x Hx. apply Hlt. right; exact Hx. }
    exists done', (new2 ++ new1). rewrite <- app_assoc.
    split; [exact Eq|]. split; [exact A1|].
    split; [|split; [|split; [|split; [|split; [|split; [|split; [|split]]]]]]].
    + apply nodup_app; auto. intros x H2 H1. apply (A6 x H2). apply in_or_app. left; exact H1.
    + intros x Hx. apply A3. apply in_or_app. right. apply Hi1. exact Hx.
    + intros x [<-|Hx]; [|apply A4; exact Hx]. apply A3. apply in_or_app. right. exact Hv1.
    + intros x Hx. apply in_app_iff in Hx as [Hx|Hx]; [apply A5; exact Hx|].
      apply A3. apply in_or_app. left; exact Hx.
    + intros x Hx Hd. apply in_app_iff in Hx as [Hx|Hx].
      * apply (A6 x Hx). apply in_or_app. right. apply Hi1. exact Hd.
      * apply (D1 x Hx). apply Hi1. exact Hd.
    + intros x Hx. apply in_app_iff in Hx as [Hx|Hx].
      * destruct (A7 x Hx) as (u & a & Hu & Ha & Pa). exists u, a. split; [right; exact Hu | auto].
      * destruct (W1 x Hx) as (a & Ha & Pa). exists v, a. split; [left; reflexivity | auto].
    + intros x Hx. destruct (A8 x Hx) as [H|[H|H]].
      * apply in_app_iff in H as [H|H].
        -- right; right. apply in_or_app. right; exact H.
        -- destruct (Hd1 x H) as [->|H']; [right; left; left; reflexivity | left; exact H'].
      * right; left; right; exact H.
      * right; right. apply in_or_app. left; exact H.
    + intros u a w [<-|Hu] Ha Pa.
      * apply A3. eapply C1; eauto.
      * eapply A9; eauto.
    + rewrite app_length in *. lia.
Qed.

(** ** the outer loop *)

Section Closure.
  Variable order : list nat -> list nat.
  Variable p : pred.
  Variable g : sodg.
  Variable v : nat.
  Hypothesis Horder : forall l, Permutation (order l) l.
  Hypothesis Hclosed : pclosed p g v.

  (** the state after at least one round: [todo] is part of [done], and every
      vertex of [done] that is not waiting in [todo] has been expanded *)
  Lemma closure_gen : forall fuel done todo,
    NoDup done ->
    (forall x, In x done -> reach p g v x) ->
    incl todo done ->
    In v done ->
    (forall u a w, In u done -> ~ In u todo -> In (a, w) (edg g u) -> p u w a = true -> In w done) ->
    (todo = [] -> 1 <= fuel) ->
    (todo <> [] -> cap_of g + 2 <= fuel + length done) ->
    exists done',
      closure fuel order p g done todo = Ok done'
      /\ NoDup done' /\ (forall w, In w done' <-> reach p g v w).
  Proof.
    induction fuel as [|f IH]; intros done todo Hnd Hr Hi Hv Hex Hf1 Hf2.
    - exfalso.
      assert (Hlen : length done <= cap_of g).
      { apply nodup_lt_length; auto. intros x Hx. eapply pclosed_reach_lt; eauto. }
      destruct todo as [|t ts]; [specialize (Hf1 eq_refl); lia|].
      assert (H : cap_of g + 2 <= 0 + length done) by (apply Hf2; discriminate). lia.
    - destruct todo as [|t ts].
      + exists done. split; [reflexivity|]. split; [exact Hnd|].
        intros w. split; [apply Hr|].
        apply (reach_in_closed_set p g v (fun u => In u done)); auto.
        intros u a x Hu Ha Pa. eapply Hex; eauto.
      + cbn [closure]. set (todo := t :: ts) in *.
        assert (Hlen : length done <= cap_of g).
        { apply nodup_lt_length; auto. intros x Hx. eapply pclosed_reach_lt; eauto. }
        assert (Hob : forall x, In x (order todo) <-> In x todo).
        { intros x. split; apply Permutation_in; [apply Horder | apply Permutation_sym, Horder]. }
        destruct (scan_batch_spec p g (order todo) done []) as
          (done' & new & Eq & A1 & A2 & A3 & A4 & A5 & A6 & A7 & A8 & A9 & A10); auto.
        { intros x Hx. eapply pclosed_reach_lt; eauto. apply Hr. apply Hi. apply Hob. exact Hx. }
        rewrite Eq. cbn [obind fst snd]. rewrite app_nil_r in *.
        assert (Hr' : forall x, In x done' -> reach p g v x).
        { intros x Hx. destruct (A8 x Hx) as [H|[H|H]].
          - apply Hr; exact H.
          - apply Hr. apply Hi. apply Hob. exact H.
          - destruct (A7 x H) as (u & a & Hu & Ha & Pa).
            apply (reach_step p g v u a x); auto. apply Hr. apply Hi. apply Hob. exact Hu. }
        apply IH; auto.
        * intros u a w Hu Hnt Ha Pa.
          destruct (A8 u Hu) as [H|[H|H]].
          -- destruct (in_dec Nat.eq_dec u todo) as [Ht|Ht].
             ++ eapply A9; eauto. apply Hob. exact Ht.
             ++ apply A3. eapply Hex; eauto.
          -- eapply A9; eauto.
          -- contradiction.
        * intros Hn. subst new.
          assert (H : cap_of g + 2 <= S f + length done) by (apply Hf2; discriminate). lia.
        * intros Hn.
          assert (H : cap_of g + 2 <= S f + length done) by (apply Hf2; discriminate).
          destruct new as [|n ns]; [congruence|]. simpl in A10. lia.
  Qed.

  (** [cap + 1] calls are enough (and on a chain that fills the graph they are
      needed, see [closure_fuel_tight] at the end of this file); the model
      hands out [cap + 2] *)
  Lemma closure_correct_fuel : forall fuel,
    cap_of g + 1 <= fuel ->
    exists done,
      closure fuel order p g [] [v] = Ok done
      /\ NoDup done /\ (forall w, In w done <-> reach p g v w).
  Proof.
    intros [|f] Hfuel; [lia|].
    assert (Hvlt : v < cap_of g) by apply Hclosed.
    cbn [closure].
    assert (Ho : order [v] = [v]).
    { apply Permutation_length_1_inv. apply Permutation_sym. apply Horder. }
    rewrite Ho. cbn [scan_batch mem existsb]. rewrite chk_v_ok by exact Hvlt. cbn [obind].
    destruct (scan_edges p v (edg g v) [v] []) as [d2 t2] eqn:E.
    destruct (scan_edges_spec p v (edg g v) _ _ _ _ E) as (new & E1 & E2 & N1 & D1 & W1 & C1).
    rewrite app_nil_r in E2. subst d2 t2. cbn [scan_batch obind fst snd].
    apply closure_gen.
    - apply nodup_app; auto. constructor; [intros []|constructor].
    - intros x Hx. apply in_app_iff in Hx as [Hx|[<-|[]]]; [|apply reach_refl].
      destruct (W1 x Hx) as (a & Ha & Pa). eapply reach_edge; eauto.
    - intros x Hx. apply in_or_app. left; exact Hx.
    - apply in_or_app. right. left. reflexivity.
    - intros u a w Hu Hnt Ha Pa. apply in_app_iff in Hu as [Hu|[<-|[]]]; [contradiction|].
      eapply C1; eauto.
    - intros _. lia.
    - intros Hn. rewrite app_length. destruct new as [|n ns]; [congruence|]. simpl. lia.
  Qed.

  Lemma closure_correct_section :
    exists done,
      closure (cap_of g + 2) order p g [] [v] = Ok done
      /\ NoDup done /\ (forall w, In w done <-> reach p g v w).
  Proof. apply closure_correct_fuel. lia. Qed.
End Closure.

Theorem closure_correct : forall order p g v,
  (forall l, Permutation (order l) l) -> pclosed p g v ->
  exists done,
    closure (cap_of g + 2) order p g [] [v] = Ok done
    /\ NoDup done /\ (forall w, In w done <-> reach p g v w).
Proof. intros order p g v Ho Hc. apply closure_correct_section; assumption. Qed.

(** the result does not depend on the iteration order, as a set *)
Corollary closure_order_irrelevant : forall order1 order2 p g v d1 d2,
  (forall l, Permutation (order1 l) l) -> (forall l, Permutation (order2 l) l) ->
  pclosed p g v ->
  closure (cap_of g + 2) order1 p g [] [v] = Ok d1 ->
  closure (cap_of g + 2) order2 p g [] [v] = Ok d2 ->
  Permutation d1 d2.
Proof.
  intros o1 o2 p g v d1 d2 H1 H2 Hc E1 E2.
  destruct (closure_correct o1 p g v H1 Hc) as (x1 & X1 & N1 & R1).
  destruct (closure_correct o2 p g v H2 Hc) as (x2 & X2 & N2 & R2).
  rewrite E1 in X1. rewrite E2 in X2. inversion X1; inversion X2; subst.
  apply NoDup_Permutation; auto. intros x. rewrite R1, R2. tauto.
Qed.

(** ** the fuel is enough on every graph

    Without [pclosed] a round may hit the boundary assertion of [emap], but the
    loop never runs out of fuel. *)

Lemma scan_batch_panic p g : forall before done todo,
  (exists x, In x before /\ cap_of g <= x) ->
  scan_batch p g before done todo = Panic PBoundary.
Proof.
  induction before as [|v rest IH]; intros done todo (x & Hx & Hc); [destruct Hx|].
  cbn [scan_batch]. destruct (Nat.ltb_spec v (cap_of g)) as [Hv|Hv].
  - rewrite chk_v_ok by exact Hv. cbn [obind].
    destruct (scan_edges p v (edg g v) (if mem v done then done else v :: done) todo) as [d2 t2].
    apply IH. exists x. split; [|exact Hc]. destruct Hx as [->|Hx]; [lia | exact Hx].
  - rewrite chk_v_panic by exact Hv. reflexivity.
Qed.

Section ClosureTotal.
  Variable order : list nat -> list nat.
  Variable p : pred.
  Variable g : sodg.
  Hypothesis Horder : forall l, Permutation (order l) l.

  Lemma closure_total_gen : forall fuel done todo,
    NoDup done -> incl todo done ->
    (todo = [] -> 1 <= fuel) ->
    (todo <> [] -> unseen (cap_of g) done + 2 <= fuel) ->
    (exists d, closure fuel order p g done todo = Ok d)
    \/ closure fuel order p g done todo = Panic PBoundary.
  Proof.
    induction fuel as [|f IH]; intros done todo Hnd Hi Hf1 Hf2.
    - exfalso. destruct todo as [|t ts]; [specialize (Hf1 eq_refl); lia|].
      assert (H : unseen (cap_of g) done + 2 <= 0) by (apply Hf2; discriminate). lia.
    - destruct todo as [|t ts]; [left; exists done; reflexivity|].
      cbn [closure]. set (todo := t :: ts) in *.
      assert (Hf : unseen (cap_of g) done + 2 <= S f) by (apply Hf2; discriminate).
      destruct (forallb (fun x => x <? cap_of g) (order todo)) eqn:Fa.
      + rewrite forallb_forall in Fa.
        destruct (scan_batch_spec p g (order todo) done []) as
          (done' & new & Eq & A1 & A2 & A3 & A4 & A5 & A6 & A7 & A8 & A9 & A10); auto.
        { intros x Hx. apply Nat.ltb_lt. apply Fa. exact Hx. }
        rewrite Eq. cbn [obind fst snd]. rewrite app_nil_r in *.
        destruct new as [|n0 ns].
        * apply IH; auto; [intros _; lia | congruence].
        * destruct (Nat.ltb_spec n0 (cap_of g)) as [Hn|Hn].
          -- apply IH; auto; [discriminate|]. intros _.
             assert (H : unseen (cap_of g) done' < unseen (cap_of g) done).
             { apply unseen_lt with (y := n0); auto.
               - apply A6. left; reflexivity.
               - apply A5. left; reflexivity. }
             lia.
          -- right. destruct f as [|f']; [lia|]. cbn [closure].
             rewrite scan_batch_panic; [reflexivity|].
             exists n0. split; [|exact Hn].
             eapply Permutation_in; [apply Permutation_sym, Horder | left; reflexivity].
      + right. rewrite scan_batch_panic; [reflexivity|].
        assert (Hex : exists x, In x (order todo) /\ (x <? cap_of g) = false).
        { clear - Fa. induction (order todo) as [|y l IHl]; simpl in Fa; [discriminate|].
          destruct (y <? cap_of g) eqn:Y.
          - destruct (IHl Fa) as (x & Hx & Hc). exists x. split; [right; exact Hx | exact Hc].
          - exists y. split; [left; reflexivity | exact Y]. }
        destruct Hex as (x & Hx & Hc). exists x. split; [exact Hx|]. apply Nat.ltb_ge. exact Hc.
  Qed.

  (** whatever the graph and the start vertex: the outcome of the closure
      loop is a set or the boundary panic, for any fuel from [cap + 2] on *)
  Lemma closure_total_fuel : forall v fuel,
    cap_of g + 2 <= fuel ->
    (exists d, closure fuel order p g [] [v] = Ok d)
    \/ closure fuel order p g [] [v] = Panic PBoundary.
  Proof.
    intros v [|f] Hfuel; [lia|].
    cbn [closure].
    assert (Ho : order [v] = [v]).
    { apply Permutation_length_1_inv. apply Permutation_sym. apply Horder. }
    rewrite Ho. destruct (Nat.ltb_spec v (cap_of g)) as [Hv|Hv].
    - cbn [scan_batch mem existsb]. rewrite chk_v_ok by exact Hv. cbn [obind].
      destruct (scan_edges p v (edg g v) [v] []) as [d2 t2] eqn:E.
      destruct (scan_edges_spec p v (edg g v) _ _ _ _ E) as (new & E1 & E2 & N1 & D1 & W1 & C1).
      rewrite app_nil_r in E2. subst d2 t2. cbn [scan_batch obind fst snd].
      apply closure_total_gen.
      + apply nodup_app; auto. constructor; [intros []|constructor].
      + intros x Hx. apply in_or_app. left; exact Hx.
      + intros _. lia.
      + intros _.
        assert (H1 : unseen (cap_of g) (new ++ [v]) <= unseen (cap_of g) [v]).
        { apply unseen_le. intros x Hx. apply in_or_app. right; exact Hx. }
        assert (H2 : unseen (cap_of g) [v] < unseen (cap_of g) []).
        { apply unseen_lt with (y := v); auto.
          - intros x [].
          - left; reflexivity. }
        rewrite unseen_nil in H2. lia.
    - right. rewrite scan_batch_panic; [reflexivity|]. exists v. split; [left; reflexivity | exact Hv].
  Qed.
End ClosureTotal.

Theorem closure_never_out_of_fuel : forall order p g v,
  (forall l, Permutation (order l) l) ->
  (exists d, closure (cap_of g + 2) order p g [] [v] = Ok d)
  \/ closure (cap_of g + 2) order p g [] [v] = Panic PBoundary.
Proof. intros order p g v Ho. apply closure_total_fuel; [exact Ho | lia]. Qed.

(** ** the rebuild loop keeps the capacity (self-contained: nothing is
    assumed about whether [bind] panics) *)

Lemma push_member_cap g b v g' : push_member g b v = Ok g' -> cap_of g' = cap_of g.
Proof.
  unfold push_member. destruct (chk_b g b); cbn [obind]; try discriminate.
  destruct (length (members g b) <? MAX_BRANCH_SIZE); intros H; inversion H; reflexivity.
Qed.

Lemma add_store_cap g b n g' : add_store g b n = Ok g' -> cap_of g' = cap_of g.
Proof.
  unfold add_store. destruct (chk_b g b); cbn [obind]; try discriminate.
  intros H; inversion H; reflexivity.
Qed.

Lemma op_add_cap g v g' : op_add g v = Ok g' -> cap_of g' = cap_of g.
Proof.
  unfold op_add. destruct (chk_v g v); cbn [obind]; try discriminate.
  destruct (tag g v =? BRANCH_NONE); intros H; inversion H; subst; auto. apply cap_set_vtx.
Qed.

Lemma op_bind_cap n g v1 v2 a g' : op_bind n g v1 v2 a = Ok g' -> cap_of g' = cap_of g.
Proof.
  unfold op_bind. destruct (chk_v g v1); cbn [obind]; try discriminate.
  destruct (chk_v g v2); cbn [obind]; try discriminate.
  destruct (mm_insert n (edg g v1) a v2) as [e'| | |]; cbn [obind]; try discriminate.
  destruct (tag g v1 =? BRANCH_STATIC).
  - destruct (tag g v2 =? BRANCH_STATIC).
    + destruct (first_empty (set_edges g v1 e')) as [b|].
      * destruct (push_member _ b v2) as [g4| | |] eqn:E4; cbn [obind]; try discriminate.
        intros H. apply add_store_cap in H. apply push_member_cap in E4.
        rewrite H, E4. autorewrite with sodg. reflexivity.
      * destruct (push_member _ (tag g v1) v2) as [g4| | |] eqn:E4; cbn [obind]; try discriminate.
        intros H. apply add_store_cap in H. apply push_member_cap in E4.
        rewrite H, E4. autorewrite with sodg. reflexivity.
    + destruct (push_member _ (tag g v2) v1) as [g3| | |] eqn:E3; cbn [obind]; try discriminate.
      intros H. apply add_store_cap in H. apply push_member_cap in E3.
      rewrite H, E3. autorewrite with sodg. reflexivity.
  - destruct (tag (set_edges g v1 e') v2 =? BRANCH_STATIC).
    + destruct (push_member _ (tag g v1) v2) as [g3| | |] eqn:E3; cbn [obind]; try discriminate.
      intros H. apply add_store_cap in H. apply push_member_cap in E3.
      rewrite H, E3. autorewrite with sodg. reflexivity.
    + intros H; inversion H; subst. apply cap_set_edges.
Qed.

Lemma rebuild_edges_cap n done v1 : forall es ng ng',
  rebuild_edges n ng done v1 es = Ok ng' -> cap_of ng' = cap_of ng.
Proof.
  induction es as [|[k v2] rest IH]; intros ng ng' H; cbn [rebuild_edges] in H.
  - inversion H; reflexivity.
  - destruct (mem v2 done); [|apply IH; exact H].
    destruct (op_add ng v2) as [ng1| | |] eqn:E1; cbn [obind] in H; try discriminate.
    destruct (op_bind n ng1 v1 v2 k) as [ng2| | |] eqn:E2; cbn [obind] in H; try discriminate.
    apply IH in H. apply op_bind_cap in E2. apply op_add_cap in E1. congruence.
Qed.

Lemma rebuild_cap n g done : forall vs ng ng',
  rebuild n g ng done vs = Ok ng' -> cap_of ng' = cap_of ng.
Proof.
  induction vs as [|v1 rest IH]; intros ng ng' H; cbn [rebuild] in H.
  - inversion H; reflexivity.
  - destruct (mem v1 done); [|apply IH; exact H].
    destruct (op_add ng v1) as [ng1| | |] eqn:E1; cbn [obind] in H; try discriminate.
    destruct (rebuild_edges n ng1 done v1 (edg g v1)) as [ng2| | |] eqn:E2; cbn [obind] in H; try discriminate.
    apply IH in H. apply rebuild_edges_cap in E2. apply op_add_cap in E1. congruence.
Qed.

(** the slice has the capacity of the original *)
Lemma slice_some_cap n order g v p ng :
  op_slice_some n order g v p = Ok ng -> cap_of ng = cap_of g.
Proof.
  unfold op_slice_some.
  destruct (closure (cap_of g + 2) order p g [] [v]) as [done| | |]; cbn [obind]; try discriminate.
  intros H. apply rebuild_cap in H. rewrite H. unfold op_empty, cap_of. cbn [g_vertices].
  apply repeat_length.
Qed.

(** ** non-vacuity *)

(** the hypotheses of [closure_correct] hold for the cyclic example graph and
    the iteration order [rev]; the loop stops and returns the three vertices of
    the cycle *)
Example closure_cyclic_rev :
  (forall l : list nat, Permutation (rev l) l)
  /\ pclosed ptrue ex_cyclic 0
  /\ closure (cap_of ex_cyclic + 2) (@rev nat) ptrue ex_cyclic [] [0] = Ok [2; 1; 0].
Proof.
  split; [intros l; apply Permutation_sym, Permutation_rev|].
  split; [apply closedb_pclosed; [vm_compute; reflexivity | vm_compute; lia]|].
  vm_compute. reflexivity.
Qed.

(** with a predicate that rejects the Greek-labelled edge 1 -> 2 only 0 and 1
    are kept *)
Example closure_cyclic_pred :
  let p : pred := fun _ _ a => match a with Greek _ => false | _ => true end in
  pclosed p ex_cyclic 0
  /\ closure (cap_of ex_cyclic + 2) (@rev nat) p ex_cyclic [] [0] = Ok [1; 0]
  /\ ~ reach p ex_cyclic 0 2.
Proof.
  cbv zeta. split; [apply closedb_pclosed; [vm_compute; reflexivity | vm_compute; lia]|].
  split; [vm_compute; reflexivity|].
  intros H.
  assert (Hs : forall u, reach (fun _ _ a => match a with Greek _ => false | _ => true end) ex_cyclic 0 u -> u = 0 \/ u = 1).
  { apply reach_in_closed_set; auto.
    intros u a w [->| ->] Hin Hp.
    - vm_compute in Hin. destruct Hin as [E|[E|[]]]; inversion E; auto.
    - vm_compute in Hin. destruct Hin as [E|[]]; inversion E; subst. discriminate. }
  destruct (Hs 2 H); discriminate.
Qed.

(** the fuel: [cap + 1] calls are needed on a chain through all slots, so of
    the [cap + 2] the model hands out exactly one is spare *)
Example closure_fuel_tight :
  closure (cap_of ex_chain) (fun l => l) ptrue ex_chain [] [0] = OutOfFuel
  /\ closure (cap_of ex_chain + 1) (fun l => l) ptrue ex_chain [] [0] = Ok [3; 2; 1; 0].
Proof. split; vm_compute; reflexivity. Qed.

Print Assumptions closure_correct.
Print Assumptions closure_correct_fuel.
Print Assumptions closure_order_irrelevant.
Print Assumptions slice_some_cap.
Print Assumptions closure_never_out_of_fuel.
