(** * Sodg: model of the graph and of its primitive operations.

    Sources modelled: src/lib.rs (types), src/ctors.rs ([empty]),
    src/ops.rs ([add], [bind], [put], [data], [kids], [kid]),
    src/misc.rs ([keys], [len], [is_empty]), src/next.rs ([next_id]),
    src/clone.rs ([clone]) -- the tree after the four [fix:] commits.

    The container layer is explicit: [emap::Map] is a list of slots whose
    accessors panic (debug assertion) on a key at or beyond the capacity,
    [microstack::Stack<usize,16>] is a list with [push] panicking at 16,
    [micromap::Map<Label,usize,N>] is an insertion-ordered association list
    whose [insert] replaces in place or appends, panicking at [N] entries.
    Every slot of the three emaps is [Some] in every state this model can
    reach (the only writer of [None] is [Sodg::join], see Merge.v), so slots
    are not options. *)

From Sodg Require Export Base Text Hex Label.

Inductive pers := PEmpty | PStored | PTaken.

Definition pers_eqb (a b : pers) : bool :=
  match a, b with
  | PEmpty, PEmpty | PStored, PStored | PTaken, PTaken => true
  | _, _ => false
  end.

Definition edges := list (label * nat).

Record vertex := mkV {
  v_branch : nat;      (* 0 absent, 1 present/ungrouped, >= 2 member of that group slot *)
  v_data : hex;
  v_pers : pers;
  v_edges : edges
}.

Record sodg := mkG {
  g_stores : list nat;          (* emap::Map<usize>, 16 slots *)
  g_branches : list (list nat); (* emap::Map<Stack<usize,16>>, 16 slots *)
  g_vertices : list vertex;     (* emap::Map<Vertex<N>>, cap slots *)
  g_next : nat                  (* next_v *)
}.

Definition MAX_BRANCHES : nat := 16.
Definition MAX_BRANCH_SIZE : nat := 16.
Definition BRANCH_NONE : nat := 0.
Definition BRANCH_STATIC : nat := 1.

Definition blank : vertex := mkV 0 hex_empty PEmpty [].

(** [Sodg::empty(cap)] *)
Definition op_empty (cap : nat) : sodg :=
  mkG (repeat 0 MAX_BRANCHES)
      ([0] :: [0] :: repeat [] (MAX_BRANCHES - 2))
      (repeat blank cap)
      0.

Definition cap_of (g : sodg) : nat := length (g_vertices g).

(** ** point-wise accessors (total; out-of-range reads give a default that
    no modelled call ever looks at, because the bound is checked first) *)

Definition vtx (g : sodg) (v : nat) : vertex := nth v (g_vertices g) blank.
Definition tag (g : sodg) (v : nat) : nat := v_branch (vtx g v).
Definition prs (g : sodg) (v : nat) : pers := v_pers (vtx g v).
Definition dat (g : sodg) (v : nat) : hex := v_data (vtx g v).
Definition edg (g : sodg) (v : nat) : edges := v_edges (vtx g v).
Definition members (g : sodg) (b : nat) : list nat := nth b (g_branches g) [].
Definition store (g : sodg) (b : nat) : nat := nth b (g_stores g) 0.

Definition set_vtx (g : sodg) (v : nat) (x : vertex) : sodg :=
  mkG (g_stores g) (g_branches g) (upd (g_vertices g) v x) (g_next g).

Definition set_tag (g : sodg) (v : nat) (b : nat) : sodg :=
  let x := vtx g v in set_vtx g v (mkV b (v_data x) (v_pers x) (v_edges x)).

Definition set_edges (g : sodg) (v : nat) (e : edges) : sodg :=
  let x := vtx g v in set_vtx g v (mkV (v_branch x) (v_data x) (v_pers x) e).

Definition set_prs (g : sodg) (v : nat) (p : pers) : sodg :=
  let x := vtx g v in set_vtx g v (mkV (v_branch x) (v_data x) p (v_edges x)).

Definition set_members (g : sodg) (b : nat) (m : list nat) : sodg :=
  mkG (g_stores g) (upd (g_branches g) b m) (g_vertices g) (g_next g).

Definition set_store (g : sodg) (b : nat) (n : nat) : sodg :=
  mkG (upd (g_stores g) b n) (g_branches g) (g_vertices g) (g_next g).

Definition set_next (g : sodg) (n : nat) : sodg :=
  mkG (g_stores g) (g_branches g) (g_vertices g) n.

(** ** container primitives with their panics *)

(** [self.vertices.get(v).unwrap()] / [get_mut]: debug assertion on the key *)
Definition chk_v (g : sodg) (v : nat) : outcome unit :=
  if v <? cap_of g then Ok tt else Panic PBoundary.

(** [self.branches.get_mut(b).unwrap()] / [self.stores.get_mut(b).unwrap()] *)
Definition chk_b (g : sodg) (b : nat) : outcome unit :=
  if (b <? length (g_branches g)) && (b <? length (g_stores g))
  then Ok tt else Panic PBoundary.

(** [self.branches.get_mut(b).unwrap().push(v)] *)
Definition push_member (g : sodg) (b v : nat) : outcome sodg :=
  _ <- chk_b g b ;;
  if length (members g b) <? MAX_BRANCH_SIZE
  then Ok (set_members g b (members g b ++ [v]))
  else Panic PStackFull.

(** [*self.stores.get_mut(b).unwrap() += n] *)
Definition add_store (g : sodg) (b n : nat) : outcome sodg :=
  _ <- chk_b g b ;; Ok (set_store g b (store g b + n)).

(** [micromap::Map::insert]: replace the value of an existing key in place,
    otherwise append; the (N+1)-th distinct key panics *)
Fixpoint mm_replace (e : edges) (a : label) (v : nat) : option edges :=
  match e with
  | [] => None
  | (k, w) :: t =>
      if label_eqb k a then Some ((k, v) :: t)
      else match mm_replace t a v with
           | Some t' => Some ((k, w) :: t')
           | None => None
           end
  end.

Definition mm_insert (n_edges : nat) (e : edges) (a : label) (v : nat) : outcome edges :=
  match mm_replace e a v with
  | Some e' => Ok e'
  | None => if length e <? n_edges then Ok (e ++ [(a, v)]) else Panic PMapFull
  end.

Fixpoint mm_get (e : edges) (a : label) : option nat :=
  match e with
  | [] => None
  | (k, w) :: t => if label_eqb k a then Some w else mm_get t a
  end.

Definition b2n (b : bool) : nat := if b then 1 else 0.

Definition is_stored (g : sodg) (v : nat) : bool := pers_eqb (prs g v) PStored.

(** ** the operations *)

(** [add(v1)] *)
Definition op_add (g : sodg) (v : nat) : outcome sodg :=
  _ <- chk_v g v ;;
  if tag g v =? BRANCH_NONE
  then Ok (set_vtx g v (mkV BRANCH_STATIC hex_empty PEmpty []))
  else Ok g.

(** index of the first group slot whose member list is empty *)
Definition first_empty (g : sodg) : option nat := find_index isnil (g_branches g).

(** [bind(v1, v2, a)]; [n] is the const generic [N] *)
Definition op_bind (n : nat) (g : sodg) (v1 v2 : nat) (a : label) : outcome sodg :=
  _ <- chk_v g v1 ;;
  _ <- chk_v g v2 ;;
  let ours := tag g v1 in
  let theirs := tag g v2 in
  let stored1 := is_stored g v1 in
  let stored2 := is_stored g v2 in
  e' <- mm_insert n (edg g v1) a v2 ;;
  let g1 := set_edges g v1 e' in
  if ours =? BRANCH_STATIC then
    if theirs =? BRANCH_STATIC then
      (* for b in branches.iter_mut() { if b.1.is_empty() { push(v1); ours = b.0; vtx1.branch = ours; break } } *)
      let '(g2, ours') :=
        match first_empty g1 with
        | Some b => (set_tag (set_members g1 b [v1]) v1 b, b)
        | None => (g1, ours)
        end in
      let g3 := set_tag g2 v2 ours' in
      g4 <- push_member g3 ours' v2 ;;
      add_store g4 ours' (b2n stored1 + b2n stored2)
    else
      let g2 := set_tag g1 v1 theirs in
      g3 <- push_member g2 theirs v1 ;;
      add_store g3 theirs (b2n stored1)
  else
    if tag g1 v2 =? BRANCH_STATIC then
      let g2 := set_tag g1 v2 ours in
      g3 <- push_member g2 ours v2 ;;
      add_store g3 ours (b2n stored2)
    else Ok g1.

(** [put(v, d)] *)
Definition op_put (g : sodg) (v : nat) (d : hex) : outcome sodg :=
  _ <- chk_v g v ;;
  let x := vtx g v in
  let unread := pers_eqb (v_pers x) PStored in
  let g1 := set_vtx g v (mkV (v_branch x) d PStored (v_edges x)) in
  if negb unread && negb (v_branch x =? BRANCH_STATIC)
  then add_store g1 (v_branch x) 1
  else Ok g1.

(** the destruction loop of [data()] *)
Fixpoint kill (g : sodg) (ms : list nat) : outcome sodg :=
  match ms with
  | [] => Ok g
  | m :: t => _ <- chk_v g m ;; kill (set_tag g m BRANCH_NONE) t
  end.

(** [data(v)] *)
Definition op_data (g : sodg) (v : nat) : outcome (sodg * option hex) :=
  _ <- chk_v g v ;;
  let x := vtx g v in
  match v_pers x with
  | PStored =>
      let d := v_data x in
      let g1 := set_prs g v PTaken in
      let b := v_branch x in
      if b =? BRANCH_STATIC then Ok (g1, Some d)
      else
        _ <- chk_b g1 b ;;
        let s := store g1 b in
        if s =? 0 then Panic PUnderflow
        else
          let g2 := set_store g1 b (s - 1) in
          if s - 1 =? 0 then
            g3 <- kill g2 (members g2 b) ;;
            Ok (set_members g3 b [], Some d)
          else Ok (g2, Some d)
  | PTaken => Ok (g, Some (v_data x))
  | PEmpty => Ok (g, None)
  end.

(** [kids(v)]: the edges in storage order *)
Definition op_kids (g : sodg) (v : nat) : outcome edges :=
  _ <- chk_v g v ;; Ok (edg g v).

(** [kid(v, a)] *)
Definition op_kid (g : sodg) (v : nat) (a : label) : outcome (option nat) :=
  _ <- chk_v g v ;; Ok (mm_get (edg g v) a).

(** [keys()] *)
Definition op_keys (g : sodg) : list nat :=
  filter (fun v => negb (tag g v =? 0)) (iota (cap_of g)).

Definition op_len (g : sodg) : nat := length (op_keys g).

(** [next_id()] *)
Definition op_next_id (g : sodg) : outcome (sodg * nat) :=
  match find (fun v => (tag g v =? 0) && (g_next g <=? v)) (iota (cap_of g)) with
  | None => Panic PUnwrapNone
  | Some id =>
      let next := id + 1 in
      Ok (if g_next g <? next then set_next g next else g, id)
  end.

(** [clone()]: field-wise deep copy; on immutable values, the identity.
    (That the copies share nothing is a fact about Rust aliasing which the
    correspondence check observes and the model cannot express.) *)
Definition op_clone (g : sodg) : sodg := g.
