(** * Print: model of src/debug.rs ([Debug]/[Display], [v_print]) and
    src/inspect.rs ([inspect]).

    Each printer is split in two: a *document* (the content the theorems talk
    about) and a *renderer* turning the document into the exact text the
    implementation prints (compared with the implementation by the
    correspondence check; no theorem depends on it). *)

From Sodg Require Export Sodg Esort.
From Coq Require Import String Ascii.

(** ASCII literal to text *)
Fixpoint s2t (s : string) : text :=
  match s with
  | EmptyString => []
  | String c r => N_of_ascii c :: s2t r
  end.

Definition ch_nl : N := 10.
Definition ch_arrow : N := 10142.   (* U+279E ➞ *)
Definition ch_lbr : N := 10214.     (* U+27E6 ⟦ *)
Definition ch_rbr : N := 10215.     (* U+27E7 ⟧ *)
Definition ch_ellipsis : N := 8230. (* U+2026 … *)
Definition ch_delta : N := 916.     (* U+0394 Δ *)

Definition nu (v : nat) : text := ch_nu :: print_nat v.

Definition has_data (g : sodg) (v : nat) : bool := negb (pers_eqb (prs g v) PEmpty).

(** ** Debug / Display *)

Record dbg_vertex := mkDV { dv_id : nat; dv_edges : edges; dv_data : option hex }.

Record dbg_doc := mkDD { dd_vertices : list dbg_vertex; dd_groups : list (nat * list nat) }.

Definition debug_doc (g : sodg) : dbg_doc :=
  mkDD
    (map (fun v => mkDV v (edg g v) (if has_data g v then Some (dat g v) else None))
         (op_keys g))
    (filter (fun bm => negb (isnil (snd bm)))
            (combine (iota (List.length (g_branches g))) (g_branches g))).

Definition render_dbg_vertex (d : dbg_vertex) : text :=
  let attrs :=
    map (fun e : label * nat =>
           [ch_nl; ch_tab] ++ label_print (fst e) ++ [ch_space; ch_arrow; ch_space] ++ nu (snd e))
        (dv_edges d)
    ++ match dv_data d with Some h => [hex_print h] | None => [] end in
  nu (dv_id d) ++ s2t " -> " ++ [ch_lbr] ++ join (s2t ", ") attrs ++ [ch_rbr].

Definition render_dbg_group (bm : nat * list nat) : text :=
  s2t "b" ++ print_nat (fst bm) ++ s2t ": {" ++ join (s2t ", ") (map nu (snd bm)) ++ s2t "}".

Definition render_debug (d : dbg_doc) : text :=
  join [ch_nl] (map render_dbg_vertex (dd_vertices d) ++ map render_dbg_group (dd_groups d)).

Definition op_debug (g : sodg) : text := render_debug (debug_doc g).

(** ** v_print *)

Definition vprint_doc (g : sodg) (v : nat) : outcome (bool * list label) :=
  _ <- chk_v g v ;; Ok (has_data g v, map fst (edg g v)).

Definition render_vprint (v : nat) (d : bool * list label) : text :=
  nu v ++ [ch_lbr] ++ (if fst d then ch_delta :: s2t ", " else [])
  ++ join (s2t ", ") (map label_print (snd d)) ++ [ch_rbr].

Definition op_vprint (g : sodg) (v : nat) : outcome text :=
  d <- vprint_doc g v ;; Ok (render_vprint v d).

(** ** inspect *)

(** one line of the listing: nesting depth, source vertex, label, target,
    and whether the target had been seen before (printed with an ellipsis
    and not expanded) *)
Record iline := mkIL { il_depth : nat; il_from : nat; il_label : label; il_to : nat; il_skip : bool }.

(** [inspect_v]; the recursion depth is bounded by the number of vertices
    because every non-skipping call adds a vertex to [seen]; the fuel handed
    in by [op_inspect] is [cap + 1] *)
Fixpoint inspect_v (fuel : nat) (g : sodg) (depth : nat) (v : nat) (seen : list nat)
  : outcome (list iline * list nat) :=
  match fuel with
  | O => OutOfFuel
  | S f =>
      _ <- chk_v g v ;;
      (fix go (es : edges) (seen : list nat) (acc : list iline) {struct es}
         : outcome (list iline * list nat) :=
         match es with
         | [] => Ok (acc, seen)
         | (a, to) :: rest =>
             if mem to seen
             then go rest seen (acc ++ [mkIL depth v a to true])
             else
               r <- inspect_v f g (S depth) to (to :: seen) ;;
               go rest (snd r) (acc ++ [mkIL depth v a to false] ++ fst r)
         end) (sort_edges (edg g v)) (v :: seen) []
  end.

Definition inspect_doc (g : sodg) (v : nat) : outcome (list iline) :=
  r <- inspect_v (cap_of g + 1) g 0 v [] ;; Ok (fst r).

Definition render_iline (l : iline) : text :=
  List.concat (repeat (s2t "  ") (il_depth l))
  ++ s2t "  ." ++ label_print (il_label l) ++ [ch_space; ch_arrow; ch_space] ++ nu (il_to l)
  ++ (if il_skip l then [ch_ellipsis] else []).

Definition render_inspect (v : nat) (ls : list iline) : text :=
  nu v ++ [ch_nl] ++ join [ch_nl] (map render_iline ls).

Definition op_inspect (g : sodg) (v : nat) : outcome text :=
  d <- inspect_doc g v ;; Ok (render_inspect v d).
