(** * History: the simulation lifted to whole call sequences, and the facts
    about the reference model that the history properties (C01, C02, C03,
    C05, C06) are stated with. *)

From Sodg Require Export Refine Shape.
From Coq Require Import Permutation Sorted.

(** ** call sequences *)

Lemma srun_app s os1 os2 :
  srun s (os1 ++ os2) =
  (fst (srun (fst (srun s os1)) os2), snd (srun s os1) ++ snd (srun (fst (srun s os1)) os2)).
Proof.
  revert s; induction os1 as [|o t IH]; intros s; cbn [app srun fst snd].
  - destruct (srun s os2); reflexivity.
  - destruct (sstep s o) as [s1 r] eqn:E. rewrite IH.
    destruct (srun s1 t) as [s2 rs]. cbn [fst snd]. destruct (srun s2 os2). reflexivity.
Qed.

Lemma srun_cons s o t :
  srun s (o :: t) = (fst (srun (fst (sstep s o)) t), snd (sstep s o) :: snd (srun (fst (sstep s o)) t)).
Proof.
  cbn [srun]. destruct (sstep s o) as [s1 r]. cbn [fst snd]. destruct (srun s1 t) as [s2 rs]. reflexivity.
Qed.

Lemma within_limits_app n cap s os1 os2 :
  within_limits n cap s (os1 ++ os2) <->
  within_limits n cap s os1 /\ within_limits n cap (fst (srun s os1)) os2.
Proof.
  revert s; induction os1 as [|o t IH]; intros s; cbn [app within_limits].
  - cbn [srun fst]. tauto.
  - rewrite IH, srun_cons. cbn [fst]. tauto.
Qed.

(** every prefix of a sequence within the limits is within the limits *)
Lemma within_limits_firstn n cap s os k :
  within_limits n cap s os -> within_limits n cap s (firstn k os).
Proof.
  intros H. rewrite <- (firstn_skipn k os) in H. apply within_limits_app in H. apply H.
Qed.

(** ** the simulation over a whole sequence *)

Theorem sim_run n : forall os g s,
  Inv n g -> R g s -> within_limits n (cap_of g) s os ->
  exists g', run n g os = Ok (g', snd (srun s os))
             /\ Inv n g' /\ R g' (fst (srun s os)) /\ cap_of g' = cap_of g.
Proof.
  induction os as [|o t IH]; intros g s HI HR HW.
  - exists g. cbn. auto.
  - destruct HW as [Hp HW].
    destruct (sim_step n g s o HI HR Hp) as (g1 & A & I1 & R1).
    pose proof (step_shape n g o g1 _ A) as (C1 & _).
    rewrite <- C1 in HW.
    destruct (IH g1 _ I1 R1 HW) as (g2 & A2 & I2 & R2 & C2).
    exists g2. split; [|split; [exact I2|split; [|congruence]]].
    + rewrite srun_cons. cbn [run fst snd]. rewrite A. cbn [obind fst snd]. rewrite A2. reflexivity.
    + rewrite srun_cons. exact R2.
Qed.

(** from the empty graph *)
Corollary sim_run_empty n cap os :
  within_limits n cap sinit os ->
  exists g', run n (op_empty cap) os = Ok (g', snd (srun sinit os))
             /\ Inv n g' /\ R g' (fst (srun sinit os)) /\ cap_of g' = cap.
Proof.
  intros HW. rewrite <- (cap_empty cap) in HW.
  destruct (sim_run n os (op_empty cap) sinit (inv_empty n cap) (R_init cap) HW) as (g' & A & I & HR & C).
  exists g'. rewrite cap_empty in C. auto.
Qed.

(** ** facts about the reference model: the grouping rules *)

Section SpecRules.
  Variable s : spec.

  Lemma spec_add_present v : s_present s v = true -> sstep s (OAdd v) = (s, RUnit).
  Proof. intros H. cbn [sstep]. rewrite H. reflexivity. Qed.

  Lemma spec_add_absent v :
    s_present s v = false ->
    let s' := fst (sstep s (OAdd v)) in
    s_present s' v = true /\ s_grp s' v = None /\ s_unread s' v = false
    /\ s_edges s' v = [] /\ s_data s' v = None
    /\ (forall w, w <> v -> s_present s' w = s_present s w /\ s_grp s' w = s_grp s w
                            /\ s_unread s' w = s_unread s w /\ s_edges s' w = s_edges s w
                            /\ s_data s' w = s_data s w)
    /\ s_alloc s' = s_alloc s.
  Proof.
    intros H. cbn [sstep]. rewrite H. cbn [fst s_present s_grp s_unread s_edges s_data s_alloc].
    unfold fupd. rewrite Nat.eqb_refl. repeat split; auto;
      apply Nat.eqb_neq in H0; rewrite Nat.eqb_sym, H0; reflexivity.
  Qed.

  (** binding never changes the present set *)
  Lemma spec_bind_present v1 v2 a w :
    s_present (fst (sstep s (OBind v1 v2 a))) w = s_present s w.
  Proof. cbn [sstep]. destruct (s_grp s v1), (s_grp s v2); reflexivity. Qed.

  (** two ungrouped vertices form a new group of exactly these two *)
  Lemma spec_bind_uu v1 v2 a :
    s_grp s v1 = None -> s_grp s v2 = None ->
    let s' := fst (sstep s (OBind v1 v2 a)) in
    s_grp s' v1 = Some (s_fresh s) /\ s_grp s' v2 = Some (s_fresh s)
    /\ (forall w, w <> v1 -> w <> v2 -> s_grp s' w = s_grp s w).
  Proof.
    intros G1 G2. cbn [sstep]. rewrite G1, G2. cbn [fst s_grp]. unfold fupd.
    rewrite !Nat.eqb_refl. split; [destruct (v2 =? v1); reflexivity|]. split; [reflexivity|].
    intros w H1 H2. apply Nat.eqb_neq in H1, H2. rewrite (Nat.eqb_sym v2 w), H2, (Nat.eqb_sym v1 w), H1.
    reflexivity.
  Qed.

  (** an ungrouped vertex joins the group of the grouped one; nobody else moves *)
  Lemma spec_bind_ug v1 v2 a k :
    s_grp s v1 = None -> s_grp s v2 = Some k ->
    let s' := fst (sstep s (OBind v1 v2 a)) in
    s_grp s' v1 = Some k /\ (forall w, w <> v1 -> s_grp s' w = s_grp s w).
  Proof.
    intros G1 G2. cbn [sstep]. rewrite G1, G2. cbn [fst s_grp]. unfold fupd.
    rewrite Nat.eqb_refl. split; [reflexivity|].
    intros w H1. apply Nat.eqb_neq in H1. rewrite (Nat.eqb_sym v1 w), H1. reflexivity.
  Qed.

  Lemma spec_bind_gu v1 v2 a k :
    s_grp s v1 = Some k -> s_grp s v2 = None ->
    let s' := fst (sstep s (OBind v1 v2 a)) in
    s_grp s' v2 = Some k /\ (forall w, w <> v2 -> s_grp s' w = s_grp s w).
  Proof.
    intros G1 G2. cbn [sstep]. rewrite G1, G2. cbn [fst s_grp]. unfold fupd.
    rewrite Nat.eqb_refl. split; [reflexivity|].
    intros w H1. apply Nat.eqb_neq in H1. rewrite (Nat.eqb_sym v2 w), H1. reflexivity.
  Qed.

  (** two grouped vertices: no group changes *)
  Lemma spec_bind_gg v1 v2 a k1 k2 :
    s_grp s v1 = Some k1 -> s_grp s v2 = Some k2 ->
    forall w, s_grp (fst (sstep s (OBind v1 v2 a))) w = s_grp s w.
  Proof. intros G1 G2 w. cbn [sstep]. rewrite G1, G2. reflexivity. Qed.

  Lemma spec_put_present v d w : s_present (fst (sstep s (OPut v d))) w = s_present s w.
  Proof. reflexivity. Qed.

  (** a read that is not the first since the put, or of a vertex without
      data, changes nothing *)
  Lemma spec_data_noop v : s_unread s v = false -> fst (sstep s (OData v)) = s.
  Proof. intros H. cbn [sstep]. rewrite H. reflexivity. Qed.

  (** the first read of an ungrouped vertex never collects *)
  Lemma spec_data_ungrouped v w :
    s_grp s v = None -> s_present (fst (sstep s (OData v))) w = s_present s w.
  Proof. intros G. cbn [sstep]. destruct (s_unread s v); [rewrite G|]; reflexivity. Qed.

  (** while another member of the group holds unread data everybody stays *)
  Lemma spec_data_keep v k w :
    s_grp s v = Some k ->
    (exists m, In m (group_members s k) /\ m <> v /\ s_unread s m = true) ->
    s_present (fst (sstep s (OData v))) w = s_present s w.
  Proof.
    intros G (m & Hm & Hne & Um). cbn [sstep]. destruct (s_unread s v); [|reflexivity]. rewrite G.
    assert (E : existsb (fupd (s_unread s) v false) (group_members s k) = true).
    { apply existsb_exists. exists m. split; [exact Hm|]. unfold fupd.
      apply Nat.eqb_neq in Hne. rewrite Nat.eqb_sym, Hne. exact Um. }
    rewrite E. reflexivity.
  Qed.

  (** the read of the last unread datum removes exactly the members *)
  Lemma spec_data_last v k w :
    s_unread s v = true -> s_grp s v = Some k ->
    (forall m, In m (group_members s k) -> m <> v -> s_unread s m = false) ->
    s_present (fst (sstep s (OData v))) w = s_present s w && negb (in_group s k w).
  Proof.
    intros U G H. cbn [sstep]. rewrite U, G.
    assert (E : existsb (fupd (s_unread s) v false) (group_members s k) = false).
    { destruct (existsb _ _) eqn:Ex; [|reflexivity]. apply existsb_exists in Ex as (m & Hm & Um).
      unfold fupd in Um. destruct (Nat.eqb_spec v m) as [->|Hne]; [discriminate|].
      rewrite (H m Hm) in Um by congruence. discriminate. }
    rewrite E. cbn [fst s_present]. destruct (in_group s k w) eqn:I; cbn [negb].
    - rewrite andb_false_r. reflexivity.
    - rewrite andb_true_r. reflexivity.
  Qed.

  Lemma spec_next_present w : s_present (fst (sstep s ONext)) w = s_present s w.
  Proof. cbn [sstep]. destruct (find _ _); reflexivity. Qed.

  (** only a data() call can shrink the present set *)
  Lemma spec_only_data_removes o w :
    (forall v, o <> OData v) -> s_present s w = true -> s_present (fst (sstep s o)) w = true.
  Proof.
    intros Hno Hw. destruct o as [v|v1 v2 a|v d|v| |v a|v|]; try exact Hw.
    - cbn [sstep]. destruct (s_present s v) eqn:P; [exact Hw|]. cbn [fst s_present]. unfold fupd.
      destruct (v =? w); [reflexivity|exact Hw].
    - rewrite spec_bind_present. exact Hw.
    - exfalso. apply (Hno v). reflexivity.
    - rewrite spec_next_present. exact Hw.
  Qed.
End SpecRules.

(** ** C01: whoever is removed is linked to the vertex read *)

Fixpoint bind_pairs (os : list op) : list (nat * nat) :=
  match os with
  | [] => []
  | OBind v1 v2 _ :: t => (v1, v2) :: bind_pairs t
  | _ :: t => bind_pairs t
  end.

(** connected in the undirected graph whose edges are the bind calls *)
Inductive linked (E : list (nat * nat)) : nat -> nat -> Prop :=
| l_refl v : linked E v v
| l_edge a b : In (a, b) E -> linked E a b
| l_sym a b : linked E a b -> linked E b a
| l_trans a b c : linked E a b -> linked E b c -> linked E a c.

Definition endpoint (E : list (nat * nat)) (v : nat) : Prop :=
  exists w, In (v, w) E \/ In (w, v) E.

Lemma bind_pairs_app os1 os2 : bind_pairs (os1 ++ os2) = bind_pairs os1 ++ bind_pairs os2.
Proof.
  induction os1 as [|o t IH]; cbn [app bind_pairs]; [reflexivity|].
  destruct o; cbn [app]; rewrite ?IH; reflexivity.
Qed.

Lemma linked_mono E E' a b : incl E E' -> linked E a b -> linked E' a b.
Proof.
  intros Hi H. induction H.
  - apply l_refl.
  - apply l_edge. apply Hi. assumption.
  - apply l_sym. assumption.
  - eapply l_trans; eassumption.
Qed.

Lemma endpoint_mono E E' v : incl E E' -> endpoint E v -> endpoint E' v.
Proof. intros Hi (w & [H|H]); exists w; [left|right]; apply Hi; exact H. Qed.

(** invariant of the reference run together with the bind calls made so far *)
Record J (E : list (nat * nat)) (s : spec) : Prop := {
  j_bound : forall v, s_present s v = true -> v < s_bound s;
  j_fresh : forall v k, s_present s v = true -> s_grp s v = Some k -> k < s_fresh s;
  j_link : forall v w k, s_present s v = true -> s_present s w = true ->
                         s_grp s v = Some k -> s_grp s w = Some k -> linked E v w;
  j_endp : forall v k, s_present s v = true -> s_grp s v = Some k -> endpoint E v
}.

Lemma J_init : J [] sinit.
Proof. split; cbn; intros; discriminate. Qed.

Definition pairs_of (o : op) : list (nat * nat) :=
  match o with OBind v1 v2 _ => [(v1, v2)] | _ => [] end.

Lemma J_mono E E' s : incl E E' -> J E s -> J E' s.
Proof.
  intros Hi [A B C D]. split; auto.
  - intros v w k H1 H2 H3 H4. eapply linked_mono; [exact Hi|]. eapply C; eassumption.
  - intros v k H1 H2. eapply endpoint_mono; [exact Hi|]. eapply D; eassumption.
Qed.

Lemma J_step n cap E s o :
  J E s -> pre n cap s o -> J (E ++ pairs_of o) (fst (sstep s o)).
Proof.
  intros HJ Hp.
  assert (Hi : incl E (E ++ pairs_of o)) by (apply incl_appl; apply incl_refl).
  pose proof (J_mono E _ s Hi HJ) as HJ'. clear HJ. destruct HJ' as [A B C D].
  destruct o as [v|v1 v2 a|v d|v| |v a|v|]; cbn [pairs_of] in *; try (split; assumption).
  - (* add *)
    cbn [sstep]. destruct (s_present s v) eqn:Pv; cbn [fst]; [split; assumption|].
    split; cbn [s_bound s_present s_grp s_fresh]; unfold fupd.
    + intros w. destruct (Nat.eqb_spec v w) as [->|Hne]; [lia|]. intros H. apply A in H. lia.
    + intros w k. destruct (Nat.eqb_spec v w) as [->|Hne]; [discriminate|]. apply B.
    + intros w1 w2 k. destruct (Nat.eqb_spec v w1) as [->|N1]; [discriminate|].
      destruct (Nat.eqb_spec v w2) as [->|N2]; [discriminate|]. apply C.
    + intros w k. destruct (Nat.eqb_spec v w) as [->|Hne]; [discriminate|]. apply D.
  - (* bind *)
    destruct Hp as (P1 & P2 & Hne & _).
    assert (L12 : linked (E ++ [(v1, v2)]) v1 v2) by (apply l_edge; apply in_or_app; right; left; reflexivity).
    assert (E1 : endpoint (E ++ [(v1, v2)]) v1) by (exists v2; left; apply in_or_app; right; left; reflexivity).
    assert (E2 : endpoint (E ++ [(v1, v2)]) v2) by (exists v1; right; apply in_or_app; right; left; reflexivity).
    cbn [sstep]. destruct (s_grp s v1) as [k1|] eqn:G1; destruct (s_grp s v2) as [k2|] eqn:G2; cbn [fst].
    + split; cbn [s_bound s_present s_grp s_fresh]; assumption.
    + (* v2 joins k1 *)
      split; cbn [s_bound s_present s_grp s_fresh]; unfold fupd; auto.
      * intros w k. destruct (Nat.eqb_spec v2 w) as [<-|N]; [|apply B].
        intros _ K. injection K as <-. apply (B v1 k1 P1 G1).
      * intros w1 w2 k. destruct (Nat.eqb_spec v2 w1) as [<-|N1]; destruct (Nat.eqb_spec v2 w2) as [<-|N2].
        -- intros; apply l_refl.
        -- intros _ H2 K1 K2. injection K1 as <-. eapply l_trans; [apply l_sym; exact L12|]. apply (C v1 w2 k1); auto.
        -- intros H1 _ K1 K2. injection K2 as <-. eapply l_trans; [|exact L12]. apply (C w1 v1 k1); auto.
        -- apply C.
      * intros w k. destruct (Nat.eqb_spec v2 w) as [<-|N]; [intros; exact E2|apply D].
    + (* v1 joins k2 *)
      split; cbn [s_bound s_present s_grp s_fresh]; unfold fupd; auto.
      * intros w k. destruct (Nat.eqb_spec v1 w) as [<-|N]; [|apply B].
        intros _ K. injection K as <-. apply (B v2 k2 P2 G2).
      * intros w1 w2 k. destruct (Nat.eqb_spec v1 w1) as [<-|N1]; destruct (Nat.eqb_spec v1 w2) as [<-|N2].
        -- intros; apply l_refl.
        -- intros _ H2 K1 K2. injection K1 as <-. eapply l_trans; [exact L12|]. apply (C v2 w2 k2); auto.
        -- intros H1 _ K1 K2. injection K2 as <-. eapply l_trans; [|apply l_sym; exact L12]. apply (C w1 v2 k2); auto.
        -- apply C.
      * intros w k. destruct (Nat.eqb_spec v1 w) as [<-|N]; [intros; exact E1|apply D].
    + (* new group *)
      assert (Q : forall w, s_present s w = true -> s_grp s w <> Some (s_fresh s)).
      { intros w Hw K. apply (B w _ Hw) in K. lia. }
      split; cbn [s_bound s_present s_grp s_fresh]; unfold fupd; auto.
      * intros w k Hw. destruct (Nat.eqb_spec v2 w) as [<-|N2]; [intros K; injection K as <-; lia|].
        destruct (Nat.eqb_spec v1 w) as [<-|N1]; [intros K; injection K as <-; lia|].
        intros K. apply (B w k Hw) in K. lia.
      * intros w1 w2 k H1 H2.
        destruct (Nat.eqb_spec v2 w1) as [<-|A2]; [|destruct (Nat.eqb_spec v1 w1) as [<-|A1]];
          (destruct (Nat.eqb_spec v2 w2) as [<-|B2]; [|destruct (Nat.eqb_spec v1 w2) as [<-|B1]]);
          intros K1 K2; try (apply l_refl); try (exact L12); try (apply l_sym; exact L12);
          try (injection K1 as <-; exfalso; apply (Q _ H2 K2));
          try (injection K2 as <-; exfalso; apply (Q _ H1 K1)).
        apply (C w1 w2 k); assumption.
      * intros w k Hw. destruct (Nat.eqb_spec v2 w) as [<-|N2]; [intros; exact E2|].
        destruct (Nat.eqb_spec v1 w) as [<-|N1]; [intros; exact E1|]. apply D; exact Hw.
  - (* data *)
    cbn [sstep]. destruct (s_unread s v); [|split; assumption].
    destruct (s_grp s v) as [k|]; [|split; assumption].
    destruct (existsb _ _); [split; assumption|].
    split; cbn [fst s_bound s_present s_grp s_fresh].
    + intros w. destruct (in_group s k w); [discriminate|apply A].
    + intros w k'. destruct (in_group s k w); [discriminate|apply B].
    + intros w1 w2 k'. destruct (in_group s k w1); [discriminate|].
      destruct (in_group s k w2); [discriminate|]. apply C.
    + intros w k'. destruct (in_group s k w); [discriminate|apply D].
  - (* next *)
    cbn [sstep]. destruct (find _ _); split; assumption.
Qed.

Lemma J_run n cap : forall os, within_limits n cap sinit os -> J (bind_pairs os) (fst (srun sinit os)).
Proof.
  intros os. induction os as [|o t IH] using rev_ind; intros HW.
  - apply J_init.
  - apply within_limits_app in HW as [H1 H2]. cbn [within_limits] in H2. destruct H2 as [Hp _].
    rewrite bind_pairs_app, srun_app. cbn [fst].
    replace (bind_pairs [o]) with (pairs_of o) by (destruct o; reflexivity).
    replace (fst (srun (fst (srun sinit t)) [o])) with (fst (sstep (fst (srun sinit t)) o)).
    + apply (J_step n cap); [apply IH; exact H1|exact Hp].
    + cbn [srun]. destruct (sstep _ o). reflexivity.
Qed.

(** the safety statement on the reference model *)
Theorem spec_safety n cap os o :
  within_limits n cap sinit (os ++ [o]) ->
  let s := fst (srun sinit os) in
  let s' := fst (sstep s o) in
  forall w, s_present s w = true -> s_present s' w = false ->
  exists v, o = OData v /\ s_unread s v = true
            /\ linked (bind_pairs os) v w /\ endpoint (bind_pairs os) w
            /\ s_unread s' w = false.
Proof.
  intros HW s s' w P0 P1.
  pose proof HW as HW0. apply within_limits_app in HW0 as [HW1 _].
  pose proof (J_run n cap os HW1) as HJ. fold s in HJ.
  destruct (match o with OData v => Some v | _ => None end) as [v|] eqn:Ho.
  2:{ exfalso. assert (Hno : forall v, o <> OData v) by (intros v ->; discriminate).
      pose proof (spec_only_data_removes s o w Hno P0) as Q. fold s' in Q. congruence. }
  destruct o; try discriminate. injection Ho as ->. exists v. split; [reflexivity|].
  unfold s' in *. cbn [sstep] in *.
  destruct (s_unread s v) eqn:Uv; [|cbn [fst] in P1; congruence]. split; [reflexivity|].
  destruct (s_grp s v) as [k|] eqn:Gv; [|cbn [fst s_present] in P1; congruence].
  destruct (existsb (fupd (s_unread s) v false) (group_members s k)) eqn:Ex;
    [cbn [fst s_present] in P1; congruence|].
  cbn [fst s_present s_unread] in *.
  destruct (in_group s k w) eqn:Ig; [|congruence].
  apply in_group_spec in Ig as [_ Gw].
  assert (Pv : s_present s v = true).
  { apply within_limits_app in HW as [_ H2]. cbn [within_limits pre] in H2. apply H2. }
  split; [apply (j_link _ _ HJ v w k); assumption|].
  split; [apply (j_endp _ _ HJ w k); assumption|].
  destruct (fupd (s_unread s) v false w) eqn:Uw; [|reflexivity]. exfalso.
  assert (existsb (fupd (s_unread s) v false) (group_members s k) = true).
  { apply existsb_exists. exists w. split; [|exact Uw]. apply group_members_spec.
    split; [apply (j_bound _ _ HJ); exact P0|]. split; assumption. }
  congruence.
Qed.

(** ** C05: the allocator *)

Lemma spec_alloc_mono s o : s_alloc s <= s_alloc (fst (sstep s o)).
Proof.
  destruct o as [v|v1 v2 a|v d|v| |v a|v|]; cbn [sstep]; try (cbn; lia).
  - destruct (s_present s v); cbn; lia.
  - destruct (s_grp s v1), (s_grp s v2); cbn; lia.
  - destruct (s_unread s v); [|cbn; lia]. destruct (s_grp s v); [|cbn; lia].
    destruct (existsb _ _); cbn; lia.
  - destruct (find _ _) as [id|] eqn:F; [|cbn; lia]. cbn [fst s_alloc].
    apply find_some in F as [Hin _]. apply in_seq in Hin. lia.
Qed.

(** what next_id() returns on the reference model, inside the limits *)
Lemma spec_next_fresh n cap s :
  (forall v, s_present s v = true -> v < s_bound s) ->
  pre n cap s ONext ->
  exists id, sstep s ONext = (mkS (s_bound s) (s_present s) (s_grp s) (s_unread s) (s_edges s)
                                  (s_data s) (S id) (s_fresh s), RId id)
             /\ s_alloc s <= id /\ id < cap /\ s_present s id = false
             /\ (forall w, s_alloc s <= w -> w < id -> s_present s w = true).
Proof.
  intros HB (x & X1 & X2 & X3). cbn [sstep].
  destruct (find (fun w => negb (s_present s w)) (seq (s_alloc s) (S (s_bound s)))) as [id|] eqn:F.
  - exists id. split; [reflexivity|].
    pose proof (find_some _ _ F) as [Hin Hp]. apply in_seq in Hin. apply negb_true_iff in Hp.
    assert (Least : forall w, s_alloc s <= w -> w < id -> s_present s w = true).
    { intros w W1 W2. pose proof (find_seq_least _ _ _ _ F w W1 W2) as Q. cbn beta in Q.
      apply negb_false_iff in Q. exact Q. }
    repeat split; try lia; auto.
    destruct (Nat.lt_ge_cases id cap) as [L|L]; [exact L|]. exfalso.
    assert (s_present s x = true) by (apply Least; lia). congruence.
  - exfalso. set (m := Nat.max (s_alloc s) (s_bound s)).
    assert (Pm : s_present s m = false).
    { destruct (s_present s m) eqn:Q; [|reflexivity]. apply HB in Q. unfold m in Q. lia. }
    eapply find_none with (x := m) in F.
    + cbn beta in F. rewrite Pm in F. discriminate.
    + apply in_seq. unfold m. lia.
Qed.

Definition ids_of (rs : list res) : list nat :=
  flat_map (fun r => match r with RId v => [v] | _ => [] end) rs.

Definition bounded (s : spec) : Prop := forall v, s_present s v = true -> v < s_bound s.

Lemma bounded_init : bounded sinit.
Proof. intros v H. discriminate. Qed.

Lemma bounded_step s o : bounded s -> bounded (fst (sstep s o)).
Proof.
  intros HB. destruct o as [v|v1 v2 a|v d|v| |v a|v|]; cbn [sstep]; try exact HB.
  - destruct (s_present s v) eqn:Pv; [exact HB|]. intros w. cbn [fst s_present s_bound]. unfold fupd.
    destruct (Nat.eqb_spec v w) as [->|Hne]; [lia|]. intros H. apply HB in H. lia.
  - destruct (s_grp s v1), (s_grp s v2); exact HB.
  - destruct (s_unread s v); [|exact HB]. destruct (s_grp s v) as [k|]; [|exact HB].
    destruct (existsb _ _); [exact HB|]. intros w. cbn [fst s_present s_bound].
    destruct (in_group s k w); [discriminate|apply HB].
  - destruct (find _ _); exact HB.
Qed.

Lemma bounded_run : forall os s, bounded s -> bounded (fst (srun s os)).
Proof.
  induction os as [|o t IH]; intros s HB; [exact HB|]. rewrite srun_cons. cbn [fst].
  apply IH. apply bounded_step. exact HB.
Qed.

Lemma sstep_not_id s o : o <> ONext -> ids_of [snd (sstep s o)] = [].
Proof.
  intros Hn. destruct o as [v|v1 v2 a|v d|v| |v a|v|]; cbn [sstep]; try reflexivity.
  - destruct (s_present s v); reflexivity.
  - destruct (s_grp s v1), (s_grp s v2); reflexivity.
  - destruct (s_unread s v); [|reflexivity]. destruct (s_grp s v); [|reflexivity].
    destruct (existsb _ _); reflexivity.
  - congruence.
Qed.

Lemma ids_of_cons r rs : ids_of (r :: rs) = ids_of [r] ++ ids_of rs.
Proof. unfold ids_of. cbn [flat_map]. rewrite app_nil_r. reflexivity. Qed.

(** the ids handed out along a call sequence inside the limits are at or
    above the allocator position they started from, below the capacity, below
    the allocator position reached at the end, and strictly increasing (hence
    never repeated) *)
Lemma spec_ids_increasing n cap : forall os s,
  bounded s -> within_limits n cap s os ->
  Forall (fun id => s_alloc s <= id /\ id < cap /\ id < s_alloc (fst (srun s os))) (ids_of (snd (srun s os)))
  /\ StronglySorted lt (ids_of (snd (srun s os)))
  /\ s_alloc s <= s_alloc (fst (srun s os)).
Proof.
  induction os as [|o t IH]; intros s HB HW.
  - cbn. split; [constructor|]. split; [constructor|lia].
  - destruct HW as [Hp HW]. rewrite srun_cons. cbn [fst snd].
    pose proof (bounded_step s o HB) as HB1.
    destruct (IH _ HB1 HW) as (F1 & S1 & M1).
    pose proof (spec_alloc_mono s o) as M0.
    rewrite ids_of_cons.
    destruct (match o with ONext => true | _ => false end) eqn:Isn.
    + destruct o; try discriminate.
      destruct (spec_next_fresh n cap s HB Hp) as (id & E & A1 & A2 & A3 & _).
      rewrite E in *. cbn [fst snd s_alloc] in *. change (ids_of [RId id]) with [id]. cbn [app].
      split; [|split; [|lia]].
      * constructor; [lia|]. eapply Forall_impl; [|exact F1]. cbn beta. intros x (X1 & X2 & X3). lia.
      * constructor; [exact S1|]. eapply Forall_impl; [|exact F1]. cbn beta. intros x (X1 & X2 & X3). lia.
    + rewrite sstep_not_id by (intros ->; discriminate). cbn [app].
      split; [|split; [exact S1|lia]].
      eapply Forall_impl; [|exact F1]. cbn beta. intros x (X1 & X2 & X3). lia.
Qed.

(** ** C03: last-write laws of the reference model *)

Lemma mm_get_spec_insert e a v b :
  mm_get (spec_insert e a v) b = if label_eqb a b then Some v else mm_get e b.
Proof.
  unfold spec_insert. destruct (mm_replace e a v) as [e'|] eqn:Rp.
  - eapply mm_get_replace; eauto.
  - apply mm_replace_none in Rp. apply mm_get_app_fresh; exact Rp.
Qed.

Section ReadBack.
  Variable s : spec.

  (** the answers *)
  Lemma spec_kid_answer v a : snd (sstep s (OKid v a)) = RKid (mm_get (s_edges s v) a).
  Proof. reflexivity. Qed.
  Lemma spec_kids_answer v : snd (sstep s (OKids v)) = RKids (s_edges s v).
  Proof. reflexivity. Qed.
  Lemma spec_data_answer v : snd (sstep s (OData v)) = RData (s_data s v).
  Proof.
    cbn [sstep]. destruct (s_unread s v); [|reflexivity]. destruct (s_grp s v); [|reflexivity].
    destruct (existsb _ _); reflexivity.
  Qed.

  (** bind(v1, v2, a) makes a point to v2, leaves every other label of v1 and
      every other vertex alone; a re-bound label keeps its position *)
  Lemma spec_bind_edges v1 v2 a :
    let s' := fst (sstep s (OBind v1 v2 a)) in
    (forall b, mm_get (s_edges s' v1) b = if label_eqb a b then Some v2 else mm_get (s_edges s v1) b)
    /\ map fst (s_edges s' v1) = (if in_dec label_eq_dec a (map fst (s_edges s v1))
                                  then map fst (s_edges s v1) else map fst (s_edges s v1) ++ [a])
    /\ (forall w, w <> v1 -> s_edges s' w = s_edges s w)
    /\ (forall w, s_data s' w = s_data s w).
  Proof.
    cbn [sstep].
    destruct (s_grp s v1), (s_grp s v2); cbn [fst s_edges s_data]; unfold fupd; rewrite Nat.eqb_refl;
      (split; [intros b; apply mm_get_spec_insert|]); (split; [apply spec_insert_keys|]);
      (split; [intros w Hw; apply Nat.eqb_neq in Hw; rewrite Nat.eqb_sym, Hw; reflexivity|reflexivity]).
  Qed.

  (** put(v, d) makes d the datum of v and touches nothing else *)
  Lemma spec_put_data v d :
    let s' := fst (sstep s (OPut v d)) in
    s_data s' v = Some d /\ (forall w, w <> v -> s_data s' w = s_data s w)
    /\ (forall w, s_edges s' w = s_edges s w).
  Proof.
    cbn [sstep fst s_data s_edges]. unfold fupd. rewrite Nat.eqb_refl. split; [reflexivity|].
    split; [|reflexivity]. intros w Hw. apply Nat.eqb_neq in Hw. rewrite Nat.eqb_sym, Hw. reflexivity.
  Qed.

  (** reads (first or repeated, collecting or not), next_id and the observers
      never change any edge or datum *)
  Lemma spec_frame_readers o :
    match o with OData _ | ONext | OKid _ _ | OKids _ | OKeys => True | _ => False end ->
    forall w, s_edges (fst (sstep s o)) w = s_edges s w /\ s_data (fst (sstep s o)) w = s_data s w.
  Proof.
    destruct o as [v|v1 v2 a|v d|v| |v a|v|]; intros H w; try destruct H; cbn [sstep]; auto.
    - destruct (s_unread s v); [|auto]. destruct (s_grp s v); [|auto]. destruct (existsb _ _); auto.
    - destruct (find _ _); auto.
  Qed.

  (** add(v) of a present vertex changes nothing; of an absent id it blanks v only *)
  Lemma spec_frame_add v w :
    w <> v -> s_edges (fst (sstep s (OAdd v))) w = s_edges s w /\ s_data (fst (sstep s (OAdd v))) w = s_data s w.
  Proof.
    intros Hw. cbn [sstep]. destruct (s_present s v); [auto|]. cbn [fst s_edges s_data]. unfold fupd.
    apply Nat.eqb_neq in Hw. rewrite Nat.eqb_sym, Hw. auto.
  Qed.
End ReadBack.

(** ** C10: clone *)

Lemma clone_exact g : op_clone g = g.
Proof. reflexivity. Qed.

Lemma clone_same_future n g os : run n (op_clone g) os = run n g os.
Proof. reflexivity. Qed.

(** ** C06: create / fill / read / collect cycles *)

Definition cycle (u w : nat) (a : label) (d : hex) : list op :=
  [OAdd u; OAdd w; OBind u w a; OPut w d; OData w].

Definition fresh_ok (s : spec) : Prop :=
  forall v k, s_present s v = true -> s_grp s v = Some k -> k < s_fresh s.

Lemma alive_same_length s1 s2 :
  (forall k, In k (alive_groups s1) <-> In k (alive_groups s2)) ->
  length (alive_groups s1) = length (alive_groups s2).
Proof.
  intros H. apply Permutation_length. apply NoDup_Permutation; [apply NoDup_nodup|apply NoDup_nodup|exact H].
Qed.

Lemma existsb_false {A} (f : A -> bool) l : (forall x, In x l -> f x = false) -> existsb f l = false.
Proof.
  induction l as [|x t IH]; intros H; cbn [existsb]; [reflexivity|].
  rewrite (H x) by (left; reflexivity). apply IH. intros y Hy. apply H. right; exact Hy.
Qed.

Lemma cycle_spec n cap s u w a d :
  bounded s -> fresh_ok s -> u <> w -> u < cap -> w < cap -> 1 <= n ->
  s_present s u = false -> s_present s w = false -> length (alive_groups s) < 14 ->
  within_limits n cap s (cycle u w a d)
  /\ (let s' := fst (srun s (cycle u w a d)) in
      bounded s' /\ fresh_ok s'
      /\ (forall x, s_present s' x = s_present s x)
      /\ (forall x, s_present s x = true -> s_grp s' x = s_grp s x)
      /\ length (alive_groups s') = length (alive_groups s))
  /\ snd (srun s (cycle u w a d)) = [RUnit; RUnit; RUnit; RUnit; RData (Some d)].
Proof.
  intros HB HF Hne Hu Hw Hn Pu Pw Hal.
  assert (Nuw : (u =? w) = false) by (apply Nat.eqb_neq; exact Hne).
  assert (Nwu : (w =? u) = false) by (apply Nat.eqb_neq; congruence).
  set (b2 := Nat.max (Nat.max (s_bound s) (S u)) (S w)).
  set (P2 := fupd (fupd (s_present s) u true) w true).
  set (G2 := fupd (fupd (s_grp s) u None) w None).
  set (U2 := fupd (fupd (s_unread s) u false) w false).
  set (E2 := fupd (fupd (s_edges s) u []) w []).
  set (D2 := fupd (fupd (s_data s) u None) w None).
  set (s2 := mkS b2 P2 G2 U2 E2 D2 (s_alloc s) (s_fresh s)).
  set (G3 := fupd (fupd G2 u (Some (s_fresh s))) w (Some (s_fresh s))).
  set (E3 := fupd E2 u (spec_insert (E2 u) a w)).
  set (s3 := mkS b2 P2 G3 U2 E3 D2 (s_alloc s) (S (s_fresh s))).
  set (s4 := mkS b2 P2 G3 (fupd U2 w true) E3 (fupd D2 w (Some d)) (s_alloc s) (S (s_fresh s))).
  set (s5 := mkS b2 (fun x => if in_group s4 (s_fresh s) x then false else P2 x)
                 (fun x => if in_group s4 (s_fresh s) x then None else G3 x)
                 (fupd (fupd U2 w true) w false) E3 (fupd D2 w (Some d)) (s_alloc s) (S (s_fresh s))).
  assert (S12 : srun s [OAdd u; OAdd w] = (s2, [RUnit; RUnit])).
  { cbn [srun sstep]. rewrite Pu. cbn [s_present]. unfold fupd at 1. rewrite Nuw, Pw. reflexivity. }
  assert (S3 : sstep s2 (OBind u w a) = (s3, RUnit)).
  { assert (Gu : s_grp s2 u = None) by (cbn [s2 s_grp]; unfold G2, fupd; rewrite Nwu, Nat.eqb_refl; reflexivity).
    assert (Gw : s_grp s2 w = None) by (cbn [s2 s_grp]; unfold G2, fupd; rewrite Nat.eqb_refl; reflexivity).
    cbn [sstep]. rewrite Gu, Gw. reflexivity. }
  assert (S4 : sstep s3 (OPut w d) = (s4, RUnit)) by reflexivity.
  (* who is in the new group *)
  assert (IG : forall x, in_group s4 (s_fresh s) x = ((x =? u) || (x =? w))).
  { intros x. unfold in_group. cbn [s4 s_present s_grp]. unfold P2, G3, G2, fupd.
    rewrite (Nat.eqb_sym x u), (Nat.eqb_sym x w).
    destruct (Nat.eqb_spec w x) as [Q1|N1].
    - rewrite Nat.eqb_refl, orb_true_r. reflexivity.
    - destruct (Nat.eqb_spec u x) as [Q2|N2].
      + rewrite Nat.eqb_refl. reflexivity.
      + cbn [orb]. destruct (s_present s x) eqn:Px; [|reflexivity]. cbn [andb].
        destruct (s_grp s x) as [k|] eqn:Gx; [|reflexivity].
        pose proof (HF x k Px Gx). destruct (Nat.eqb_spec k (s_fresh s)); [lia|reflexivity]. }
  assert (S5 : sstep s4 (OData w) = (s5, RData (Some d))).
  { cbn [sstep]. cbn [s4 s_unread s_grp s_data]. unfold fupd at 1. rewrite Nat.eqb_refl.
    unfold G3 at 1. unfold fupd at 1. rewrite Nat.eqb_refl.
    rewrite existsb_false.
    - unfold fupd at 4. rewrite Nat.eqb_refl. reflexivity.
    - intros x Hx. apply group_members_spec in Hx as (_ & Hp & Hg).
      assert (Q : in_group s4 (s_fresh s) x = true) by (apply in_group_spec; split; assumption).
      rewrite IG in Q. unfold fupd. destruct (Nat.eqb_spec w x) as [_|N1]; [reflexivity|].
      destruct (Nat.eqb_spec w x); [contradiction|].
      apply orb_true_iff in Q as [Q|Q]; apply Nat.eqb_eq in Q; subst x; [|congruence].
      unfold U2, fupd. rewrite Nwu, Nat.eqb_refl. reflexivity. }
  assert (SR : srun s (cycle u w a d) = (s5, [RUnit; RUnit; RUnit; RUnit; RData (Some d)])).
  { change (cycle u w a d) with ([OAdd u; OAdd w] ++ [OBind u w a; OPut w d; OData w]).
    rewrite srun_app, S12. cbn [fst snd]. rewrite !srun_cons. rewrite S3. cbn [fst snd]. rewrite S4. cbn [fst snd]. rewrite S5. reflexivity. }
  (* the present set and the groups of the survivors are as before *)
  assert (P5 : forall x, s_present s5 x = s_present s x).
  { intros x. cbn [s5 s_present]. rewrite IG. unfold P2, fupd.
    destruct (Nat.eqb_spec x u) as [->|N1]; cbn [orb]; [congruence|].
    destruct (Nat.eqb_spec x w) as [->|N2]; [congruence|].
    apply Nat.eqb_neq in N1, N2. rewrite (Nat.eqb_sym w x), N2, (Nat.eqb_sym u x), N1. reflexivity. }
  assert (G5 : forall x, s_present s x = true -> s_grp s5 x = s_grp s x).
  { intros x Px. cbn [s5 s_grp]. rewrite IG.
    destruct (Nat.eqb_spec x u) as [->|N1]; [congruence|]. destruct (Nat.eqb_spec x w) as [->|N2]; [congruence|].
    cbn [orb]. unfold G3, G2, fupd. apply Nat.eqb_neq in N1, N2.
    rewrite (Nat.eqb_sym w x), N2, (Nat.eqb_sym u x), N1. reflexivity. }
  assert (A2 : forall k, In k (alive_groups s2) <-> In k (alive_groups s)).
  { intros k. rewrite !alive_in. split.
    - intros (x & _ & Px & Gx). cbn [s2 s_present s_grp] in Px, Gx. unfold P2, G2, fupd in Px, Gx.
      destruct (Nat.eqb_spec w x); [discriminate|]. destruct (Nat.eqb_spec u x); [discriminate|].
      exists x. split; [apply HB; exact Px|]. split; assumption.
    - intros (x & _ & Px & Gx). exists x. cbn [s2 s_bound s_present s_grp]. unfold P2, G2, fupd.
      destruct (Nat.eqb_spec w x) as [<-|]; [congruence|]. destruct (Nat.eqb_spec u x) as [<-|]; [congruence|].
      split; [pose proof (HB x Px); unfold b2; lia|]. split; assumption. }
  assert (A5 : forall k, In k (alive_groups s5) <-> In k (alive_groups s)).
  { intros k. rewrite !alive_in. split.
    - intros (x & _ & Px & Gx). rewrite P5 in Px. rewrite (G5 x Px) in Gx.
      exists x. split; [apply HB; exact Px|]. split; assumption.
    - intros (x & _ & Px & Gx). exists x. rewrite P5, (G5 x Px).
      split; [pose proof (HB x Px); cbn [s5 s_bound]; unfold b2; lia|]. split; assumption. }
  split; [|split].
  - (* within the limits *)
    change (cycle u w a d) with ([OAdd u; OAdd w] ++ [OBind u w a; OPut w d; OData w]).
    apply within_limits_app. split.
    + cbn [within_limits pre]. auto.
    + rewrite S12. cbn [fst within_limits]. rewrite S3. cbn [fst]. rewrite S4. cbn [fst pre].
      split; [|split; [|split; [|exact I]]].
      * cbn [s2 s_present s_grp s_edges]. unfold P2, G2, E2, fupd. rewrite Nwu, !Nat.eqb_refl.
        split; [reflexivity|]. split; [reflexivity|]. split; [exact Hne|].
        split; [right; cbn; lia|].
        rewrite (alive_same_length s2 s A2). exact Hal.
      * cbn [s3 s_present]. unfold P2, fupd. rewrite Nat.eqb_refl. reflexivity.
      * cbn [s4 s_present]. unfold P2, fupd. rewrite Nat.eqb_refl. reflexivity.
  - rewrite SR. cbn [fst]. split; [|split; [|split; [exact P5|split; [exact G5|apply alive_same_length; exact A5]]]].
    + intros x Px. rewrite P5 in Px. pose proof (HB x Px). cbn [s5 s_bound]. unfold b2. lia.
    + intros x k Px Gx. rewrite P5 in Px. rewrite (G5 x Px) in Gx. pose proof (HF x k Px Gx).
      cbn [s5 s_fresh]. lia.
  - rewrite SR. reflexivity.
Qed.

(** any number of cycles, each over its own pair of currently absent ids *)
Fixpoint cycles (cs : list (nat * nat * label * hex)) : list op :=
  match cs with
  | [] => []
  | (u, w, a, d) :: t => cycle u w a d ++ cycles t
  end.

Theorem cycles_spec n cap : forall cs s,
  bounded s -> fresh_ok s -> 1 <= n -> length (alive_groups s) < 14 ->
  Forall (fun c => match c with (u, w, _, _) =>
            u <> w /\ u < cap /\ w < cap /\ s_present s u = false /\ s_present s w = false end) cs ->
  within_limits n cap s (cycles cs)
  /\ (forall x, s_present (fst (srun s (cycles cs))) x = s_present s x)
  /\ length (alive_groups (fst (srun s (cycles cs)))) = length (alive_groups s).
Proof.
  induction cs as [|[[[u w] a] d] t IH]; intros s HB HF Hn Hal HC.
  - cbn. auto.
  - inversion HC as [|? ? Hhd HC']; subst. cbn beta iota in Hhd. destruct Hhd as (H1 & H2 & H3 & H4 & H5). cbn [cycles].
    destruct (cycle_spec n cap s u w a d HB HF H1 H2 H3 Hn H4 H5 Hal) as (W1 & (B1 & F1 & P1 & G1 & L1) & _).
    set (s1 := fst (srun s (cycle u w a d))) in *.
    assert (HC1 : Forall (fun c => match c with (u0, w0, _, _) =>
               u0 <> w0 /\ u0 < cap /\ w0 < cap /\ s_present s1 u0 = false /\ s_present s1 w0 = false end) t).
    { eapply Forall_impl; [|exact HC']. intros [[[u0 w0] a0] d0]. rewrite !P1. tauto. }
    assert (Hal1 : length (alive_groups s1) < 14) by lia.
    destruct (IH s1 B1 F1 Hn Hal1 HC1) as (W2 & P2 & L2).
    split; [apply within_limits_app; split; assumption|].
    rewrite srun_app. cbn [fst]. fold s1. split.
    + intros x. rewrite P2. apply P1.
    + lia.
Qed.

Lemma cycle_def u w a d : cycle u w a d = [OAdd u; OAdd w; OBind u w a; OPut w d; OData w].
Proof. reflexivity. Qed.

Lemma clone_observers g :
  op_keys (op_clone g) = op_keys g /\ g_next (op_clone g) = g_next g
  /\ (forall v, op_kids (op_clone g) v = op_kids g v)
  /\ (forall v a, op_kid (op_clone g) v a = op_kid g v a)
  /\ (forall v, op_data (op_clone g) v = op_data g v)
  /\ op_next_id (op_clone g) = op_next_id g.
Proof. repeat split. Qed.
