(** * History: the simulation lifted to whole call sequences, and the facts
    about the reference model that the history properties (C01, C02, C03,
    C05, C06) are stated with. *)

From Sodg Require Export Refine Shape.
From Coq Require Import Permutation.

(** ** call sequences *)

Lemma srun_app s os1 os2 :
  srun s (os1 ++ os2) =
  (fst (srun (fst (srun s os1)) os2), snd (srun s os1) ++ snd (srun (fst (srun s os1)) os2)).
Proof.
  revert s; induction os1 as [|o t IH]; intros s; cbn [app srun fst snd].
  - destruct (srun s os2); reflexivity.
  - destruct (sstep s o) as [s1 r] eqn:E. rewrite IH.
    destruct (srun s1 t) as [s2 rs]. cbn [fst snd]. destruct (srun s2 os2). reflexivity.
Qed.

Lemma srun_cons s o t :
  srun s (o :: t) = (fst (srun (fst (sstep s o)) t), snd (sstep s o) :: snd (srun (fst (sstep s o)) t)).
Proof.
  cbn [srun]. destruct (sstep s o) as [s1 r]. cbn [fst snd]. destruct (srun s1 t) as [s2 rs]. reflexivity.
Qed.

Lemma within_limits_app n cap s os1 os2 :
  within_limits n cap s (os1 ++ os2) <->
  within_limits n cap s os1 /\ within_limits n cap (fst (srun s os1)) os2.
Proof.
  revert s; induction os1 as [|o t IH]; intros s; cbn [app within_limits].
  - cbn [srun fst]. tauto.
  - rewrite IH, srun_cons. cbn [fst]. tauto.
Qed.

(** every prefix of a sequence within the limits is within the limits *)
Lemma within_limits_firstn n cap s os k :
  within_limits n cap s os -> within_limits n cap s (firstn k os).
Proof.
  intros H. rewrite <- (firstn_skipn k os) in H. apply within_limits_app in H. apply H.
Qed.

(** ** the simulation over a whole sequence *)

Theorem sim_run n : forall os g s,
  Inv n g -> R g s -> within_limits n (cap_of g) s os ->
  exists g', run n g os = Ok (g', snd (srun s os))
             /\ Inv n g' /\ R g' (fst (srun s os)) /\ cap_of g' = cap_of g.
Proof.
  induction os as [|o t IH]; intros g s HI HR HW.
  - exists g. cbn. auto.
  - destruct HW as [Hp HW].
    destruct (sim_step n g s o HI HR Hp) as (g1 & A & I1 & R1).
    pose proof (step_shape n g o g1 _ A) as (C1 & _).
    rewrite <- C1 in HW.
    destruct (IH g1 _ I1 R1 HW) as (g2 & A2 & I2 & R2 & C2).
    exists g2. split; [|split; [exact I2|split; [|congruence]]].
    + rewrite srun_cons. cbn [run fst snd]. rewrite A. cbn [obind fst snd]. rewrite A2. reflexivity.
    + rewrite srun_cons. exact R2.
Qed.

(** from the empty graph *)
Corollary sim_run_empty n cap os :
  within_limits n cap sinit os ->
  exists g', run n (op_empty cap) os = Ok (g', snd (srun sinit os))
             /\ Inv n g' /\ R g' (fst (srun sinit os)) /\ cap_of g' = cap.
Proof.
  intros HW. rewrite <- (cap_empty cap) in HW.
  destruct (sim_run n os (op_empty cap) sinit (inv_empty n cap) (R_init cap) HW) as (g' & A & I & HR & C).
  exists g'. rewrite cap_empty in C. auto.
Qed.

(** ** facts about the reference model: the grouping rules *)

Section SpecRules.
  Variable s : spec.

  Lemma spec_add_present v : s_present s v = true -> sstep s (OAdd v) = (s, RUnit).
  Proof. intros H. cbn [sstep]. rewrite H. reflexivity. Qed.

  Lemma spec_add_absent v :
    s_present s v = false ->
    let s' := fst (sstep s (OAdd v)) in
    s_present s' v = true /\ s_grp s' v = None /\ s_unread s' v = false
    /\ s_edges s' v = [] /\ s_data s' v = None
    /\ (forall w, w <> v -> s_present s' w = s_present s w /\ s_grp s' w = s_grp s w
                            /\ s_unread s' w = s_unread s w /\ s_edges s' w = s_edges s w
                            /\ s_data s' w = s_data s w)
    /\ s_alloc s' = s_alloc s.
  Proof.
    intros H. cbn [sstep]. rewrite H. cbn [fst s_present s_grp s_unread s_edges s_data s_alloc].
    unfold fupd. rewrite Nat.eqb_refl. repeat split; auto;
      apply Nat.eqb_neq in H0; rewrite Nat.eqb_sym, H0; reflexivity.
  Qed.

  (** binding never changes the present set *)
  Lemma spec_bind_present v1 v2 a w :
    s_present (fst (sstep s (OBind v1 v2 a))) w = s_present s w.
  Proof. cbn [sstep]. destruct (s_grp s v1), (s_grp s v2); reflexivity. Qed.

  (** two ungrouped vertices form a new group of exactly these two *)
  Lemma spec_bind_uu v1 v2 a :
    s_grp s v1 = None -> s_grp s v2 = None ->
    let s' := fst (sstep s (OBind v1 v2 a)) in
    s_grp s' v1 = Some (s_fresh s) /\ s_grp s' v2 = Some (s_fresh s)
    /\ (forall w, w <> v1 -> w <> v2 -> s_grp s' w = s_grp s w).
  Proof.
    intros G1 G2. cbn [sstep]. rewrite G1, G2. cbn [fst s_grp]. unfold fupd.
    rewrite !Nat.eqb_refl. split; [destruct (v2 =? v1); reflexivity|]. split; [reflexivity|].
    intros w H1 H2. apply Nat.eqb_neq in H1, H2. rewrite (Nat.eqb_sym v2 w), H2, (Nat.eqb_sym v1 w), H1.
    reflexivity.
  Qed.

  (** an ungrouped vertex joins the group of the grouped one; nobody else moves *)
  Lemma spec_bind_ug v1 v2 a k :
    s_grp s v1 = None -> s_grp s v2 = Some k ->
    let s' := fst (sstep s (OBind v1 v2 a)) in
    s_grp s' v1 = Some k /\ (forall w, w <> v1 -> s_grp s' w = s_grp s w).
  Proof.
    intros G1 G2. cbn [sstep]. rewrite G1, G2. cbn [fst s_grp]. unfold fupd.
    rewrite Nat.eqb_refl. split; [reflexivity|].
    intros w H1. apply Nat.eqb_neq in H1. rewrite (Nat.eqb_sym v1 w), H1. reflexivity.
  Qed.

  Lemma spec_bind_gu v1 v2 a k :
    s_grp s v1 = Some k -> s_grp s v2 = None ->
    let s' := fst (sstep s (OBind v1 v2 a)) in
    s_grp s' v2 = Some k /\ (forall w, w <> v2 -> s_grp s' w = s_grp s w).
  Proof.
    intros G1 G2. cbn [sstep]. rewrite G1, G2. cbn [fst s_grp]. unfold fupd.
    rewrite Nat.eqb_refl. split; [reflexivity|].
    intros w H1. apply Nat.eqb_neq in H1. rewrite (Nat.eqb_sym v2 w), H1. reflexivity.
  Qed.

  (** two grouped vertices: no group changes *)
  Lemma spec_bind_gg v1 v2 a k1 k2 :
    s_grp s v1 = Some k1 -> s_grp s v2 = Some k2 ->
    forall w, s_grp (fst (sstep s (OBind v1 v2 a))) w = s_grp s w.
  Proof. intros G1 G2 w. cbn [sstep]. rewrite G1, G2. reflexivity. Qed.

  Lemma spec_put_present v d w : s_present (fst (sstep s (OPut v d))) w = s_present s w.
  Proof. reflexivity. Qed.

  (** a read that is not the first since the put, or of a vertex without
      data, changes nothing *)
  Lemma spec_data_noop v : s_unread s v = false -> fst (sstep s (OData v)) = s.
  Proof. intros H. cbn [sstep]. rewrite H. reflexivity. Qed.

  (** the first read of an ungrouped vertex never collects *)
  Lemma spec_data_ungrouped v w :
    s_grp s v = None -> s_present (fst (sstep s (OData v))) w = s_present s w.
  Proof. intros G. cbn [sstep]. destruct (s_unread s v); [rewrite G|]; reflexivity. Qed.

  (** while another member of the group holds unread data everybody stays *)
  Lemma spec_data_keep v k w :
    s_grp s v = Some k ->
    (exists m, In m (group_members s k) /\ m <> v /\ s_unread s m = true) ->
    s_present (fst (sstep s (OData v))) w = s_present s w.
  Proof.
    intros G (m & Hm & Hne & Um). cbn [sstep]. destruct (s_unread s v); [|reflexivity]. rewrite G.
    assert (E : existsb (fupd (s_unread s) v false) (group_members s k) = true).
    { apply existsb_exists. exists m. split; [exact Hm|]. unfold fupd.
      apply Nat.eqb_neq in Hne. rewrite Nat.eqb_sym, Hne. exact Um. }
    rewrite E. reflexivity.
  Qed.

  (** the read of the last unread datum removes exactly the members *)
  Lemma spec_data_last v k w :
    s_unread s v = true -> s_grp s v = Some k ->
    (forall m, In m (group_members s k) -> m <> v -> s_unread s m = false) ->
    s_present (fst (sstep s (OData v))) w = s_present s w && negb (in_group s k w).
  Proof.
    intros U G H. cbn [sstep]. rewrite U, G.
    assert (E : existsb (fupd (s_unread s) v false) (group_members s k) = false).
    { destruct (existsb _ _) eqn:Ex; [|reflexivity]. apply existsb_exists in Ex as (m & Hm & Um).
      unfold fupd in Um. destruct (Nat.eqb_spec v m) as [->|Hne]; [discriminate|].
      rewrite (H m Hm) in Um by congruence. discriminate. }
    rewrite E. cbn [fst s_present]. destruct (in_group s k w) eqn:I; cbn [negb].
    - rewrite andb_false_r. reflexivity.
    - rewrite andb_true_r. reflexivity.
  Qed.

  Lemma spec_next_present w : s_present (fst (sstep s ONext)) w = s_present s w.
  Proof. cbn [sstep]. destruct (find _ _); reflexivity. Qed.

  (** only a data() call can shrink the present set *)
  Lemma spec_only_data_removes o w :
    (forall v, o <> OData v) -> s_present s w = true -> s_present (fst (sstep s o)) w = true.
  Proof.
    intros Hno Hw. destruct o as [v|v1 v2 a|v d|v| |v a|v|]; try exact Hw.
    - cbn [sstep]. destruct (s_present s v) eqn:P; [exact Hw|]. cbn [fst s_present]. unfold fupd.
      destruct (v =? w); [reflexivity|exact Hw].
    - rewrite spec_bind_present. exact Hw.
    - exfalso. apply (Hno v). reflexivity.
    - rewrite spec_next_present. exact Hw.
  Qed.
End SpecRules.
