(** * HexFacts: lemmas about the [Hex] model (Hex.v) behind properties C15
    and C16.  The property theorems themselves are restated in P_C15.v and
    P_C16.v; this file holds every auxiliary and main lemma.

    Standard library only, no axioms. *)

From Sodg Require Import Base Text Hex.
From Coq Require Import Lia ZifyBool ZifyN.

Local Open Scope nat_scope.

(** ** comparing outcomes up to the panic kind *)

Definition same_out {A} (x y : outcome A) : Prop :=
  match x, y with
  | Ok a, Ok b => a = b
  | Panic _, Panic _ => True
  | _, _ => False
  end.

Lemma same_out_sym {A} (x y : outcome A) : same_out x y -> same_out y x.
Proof. destruct x, y; cbn [same_out]; intros H; try exact H; try exact I. symmetry; exact H. Qed.

Lemma same_out_trans {A} (x y z : outcome A) :
  same_out x y -> same_out y z -> same_out x z.
Proof.
  destruct x, y, z; cbn [same_out]; intros H1 H2;
    try contradiction; try exact I.
  congruence.
Qed.

Lemma same_out_eq {A} (x y : outcome A) : x = y -> same_out x x -> same_out x y.
Proof. intros <- H; exact H. Qed.

(** ** generic list lemmas *)

Lemma nth_firstn_lt {A} (l : list A) n i d :
  i < n -> nth i (firstn n l) d = nth i l d.
Proof.
  revert n i; induction l as [|x t IH]; intros [|n] [|i] H;
    cbn [firstn nth]; try reflexivity; try lia.
  apply IH; lia.
Qed.

Lemma firstn_length_app {A} (l r : list A) : firstn (length l) (l ++ r) = l.
Proof.
  induction l as [|x t IH]; cbn [length app firstn]; [reflexivity|].
  rewrite IH; reflexivity.
Qed.

Lemma firstn_plus_app {A} (l r : list A) n :
  firstn (length l + n) (l ++ r) = l ++ firstn n r.
Proof.
  induction l as [|x t IH]; cbn [length app firstn plus]; [reflexivity|].
  rewrite IH; reflexivity.
Qed.

Lemma forallb_firstn {A} (p : A -> bool) n l :
  forallb p l = true -> forallb p (firstn n l) = true.
Proof.
  revert l; induction n as [|n IH]; intros [|x t] H; cbn [firstn forallb] in *;
    try reflexivity.
  apply andb_true_iff in H as [H1 H2].
  rewrite H1; cbn [andb]. apply IH; exact H2.
Qed.

Lemma forallb_skipn {A} (p : A -> bool) n l :
  forallb p l = true -> forallb p (skipn n l) = true.
Proof.
  revert l; induction n as [|n IH]; intros [|x t] H; cbn [skipn forallb] in *;
    try reflexivity; try exact H.
  apply andb_true_iff in H as [H1 H2].
  apply IH; exact H2.
Qed.

Lemma forallb_repeat {A} (p : A -> bool) x n :
  p x = true -> forallb p (repeat x n) = true.
Proof.
  intros Hx; induction n as [|n IH]; cbn [repeat forallb]; [reflexivity|].
  rewrite Hx, IH; reflexivity.
Qed.

Lemma filter_all {A} (p : A -> bool) l : forallb p l = true -> filter p l = l.
Proof.
  induction l as [|x t IH]; cbn [forallb filter]; intros H; [reflexivity|].
  apply andb_true_iff in H as [H1 H2]. rewrite H1, IH by exact H2. reflexivity.
Qed.

(** ** well-formedness *)

Lemma wf_bytes_inv a n :
  wf_hex (HBytes a n) = true ->
  length a = 8 /\ forallb wf_byte a = true /\ n <= 8.
Proof.
  cbn [wf_hex]. rewrite !andb_true_iff, Nat.eqb_eq, Nat.leb_le. tauto.
Qed.

Lemma wf_bytes_intro a n :
  length a = 8 -> forallb wf_byte a = true -> n <= 8 -> wf_hex (HBytes a n) = true.
Proof.
  intros H1 H2 H3. cbn [wf_hex]. rewrite !andb_true_iff, Nat.eqb_eq, Nat.leb_le. tauto.
Qed.

Lemma wf_bytes_all h : wf_hex h = true -> forallb wf_byte (bytes h) = true.
Proof.
  destruct h as [l|a n]; intros H; cbn [bytes].
  - exact H.
  - apply wf_bytes_inv in H as (_ & H & _). apply forallb_firstn; exact H.
Qed.

Lemma len_bytes h : wf_hex h = true -> hex_len h = length (bytes h).
Proof.
  destruct h as [l|a n]; intros H; cbn [bytes hex_len]; [reflexivity|].
  apply wf_bytes_inv in H as (Ha & _ & Hn).
  rewrite firstn_length_le; [reflexivity | lia].
Qed.

Lemma to_vec_bytes h : hex_to_vec h = bytes h.
Proof. reflexivity. Qed.

Lemma is_empty_bytes h : wf_hex h = true -> (hex_is_empty h = true <-> bytes h = []).
Proof.
  intros H. unfold hex_is_empty. rewrite (len_bytes h H), Nat.eqb_eq.
  destruct (bytes h); cbn [length]; split; intros E; try reflexivity; try discriminate.
Qed.

Lemma is_empty_isnil h : wf_hex h = true -> hex_is_empty h = isnil (bytes h).
Proof.
  intros H. unfold hex_is_empty. rewrite (len_bytes h H).
  destruct (bytes h); reflexivity.
Qed.

(** ** equality *)

Lemma bytes_eqb_spec a b : bytes_eqb a b = true <-> a = b.
Proof. unfold bytes_eqb. apply list_eqb_spec. intros x y. apply N.eqb_eq. Qed.

Lemma hex_eqb_spec a b : hex_eqb a b = true <-> bytes a = bytes b.
Proof. unfold hex_eqb. apply bytes_eqb_spec. Qed.

Lemma hex_eqb_bytes_l a a' b : bytes a = bytes a' -> hex_eqb a b = hex_eqb a' b.
Proof. unfold hex_eqb. intros ->. reflexivity. Qed.

(** ** slices *)

Lemma sl_same l s e : same_out (sl l s e) (sl l s e).
Proof. unfold sl. destruct ((s <=? e)%N && (e <=? nlen l)%N); cbn [same_out]; auto. Qed.

Lemma idx_same l i : same_out (idx l i) (idx l i).
Proof. unfold idx. destruct (i <? nlen l)%N; cbn [same_out]; auto. Qed.

Lemma sl_firstn_in a n s e :
  n <= length a -> (e <= N.of_nat n)%N -> sl (firstn n a) s e = sl a s e.
Proof.
  intros Hn He. unfold sl, nlen. rewrite firstn_length_le by exact Hn.
  destruct (s <=? e)%N eqn:Hse; cbn [andb]; [|reflexivity].
  assert ((e <=? N.of_nat n)%N = true) as -> by lia.
  assert ((e <=? N.of_nat (length a))%N = true) as -> by lia.
  f_equal. rewrite skipn_firstn_comm, firstn_firstn. f_equal. lia.
Qed.

Lemma sl_firstn_out a n s e :
  n <= length a -> (N.of_nat n < e)%N -> sl (firstn n a) s e = Panic PIndex.
Proof.
  intros Hn He. unfold sl, nlen. rewrite firstn_length_le by exact Hn.
  assert ((e <=? N.of_nat n)%N = false) as -> by lia.
  rewrite andb_false_r. reflexivity.
Qed.

Lemma sl_gt l s e : (e < s)%N -> sl l s e = Panic PIndex.
Proof.
  intros H. unfold sl. assert ((s <=? e)%N = false) as -> by lia. reflexivity.
Qed.

Lemma sl_full a n : n <= length a -> sl a 0 (N.of_nat n) = Ok (firstn n a).
Proof.
  intros Hn. unfold sl, nlen.
  assert ((0 <=? N.of_nat n)%N = true) as -> by lia.
  assert ((N.of_nat n <=? N.of_nat (length a))%N = true) as -> by lia.
  cbn [andb]. f_equal. change (N.to_nat 0) with 0. cbn [skipn]. f_equal. lia.
Qed.

Lemma sl_from l s :
  (s <= nlen l)%N -> sl l s (nlen l) = Ok (skipn (N.to_nat s) l).
Proof.
  intros H. unfold sl.
  assert ((s <=? nlen l)%N = true) as -> by lia.
  assert ((nlen l <=? nlen l)%N = true) as -> by lia.
  cbn [andb]. f_equal. apply firstn_all2. rewrite skipn_length. unfold nlen. lia.
Qed.

(** ** indexing *)

Lemma index_bytes_arr a n i :
  length a = 8 -> n <= 8 ->
  same_out (hex_index (HBytes a n) i) (idx (firstn n a) i).
Proof.
  intros Ha Hn. cbn [hex_index]. unfold idx, nlen.
  rewrite firstn_length_le by lia. rewrite Ha.
  destruct (i <? N.of_nat n)%N eqn:Hi.
  - assert ((i <? N.of_nat 8)%N = true) as -> by lia.
    cbn [same_out]. symmetry. apply nth_firstn_lt. lia.
  - exact I.
Qed.

Lemma index_bytes h i :
  wf_hex h = true -> same_out (hex_index h i) (idx (bytes h) i).
Proof.
  destruct h as [l|a n]; intros H.
  - cbn [hex_index bytes]. apply idx_same.
  - apply wf_bytes_inv in H as (Ha & _ & Hn). cbn [bytes].
    apply index_bytes_arr; assumption.
Qed.

(** ** the six range kinds *)

Lemma range_bytes_arr a n k s e :
  length a = 8 -> n <= 8 ->
  same_out (hex_range (HBytes a n) k s e) (sl_kind (firstn n a) k s e).
Proof.
  intros Ha Hn. assert (Hna : n <= length a) by lia.
  destruct k; cbn [hex_range sl_kind].
  - (* a[s..e] *)
    destruct (e <=? N.of_nat n)%N eqn:He.
    + rewrite sl_firstn_in by lia. apply sl_same.
    + rewrite sl_firstn_out by lia. exact I.
  - (* a[s..] *)
    unfold nlen. rewrite firstn_length_le by exact Hna.
    destruct (s <=? N.of_nat n)%N eqn:Hs.
    + rewrite sl_firstn_in by lia. apply sl_same.
    + rewrite sl_gt by lia. exact I.
  - (* a[..] *)
    rewrite sl_full by exact Hna. reflexivity.
  - (* a[s..=e] *)
    destruct (e <? N.of_nat n)%N eqn:He.
    + assert ((e =? usize_max)%N = false) as -> by (unfold usize_max; lia).
      rewrite sl_firstn_in by lia. apply sl_same.
    + destruct (e =? usize_max)%N; [exact I|].
      rewrite sl_firstn_out by lia. exact I.
  - (* a[..e] *)
    destruct (e <=? N.of_nat n)%N eqn:He.
    + rewrite sl_firstn_in by lia. apply sl_same.
    + rewrite sl_firstn_out by lia. exact I.
  - (* a[..=e] *)
    destruct (e <? N.of_nat n)%N eqn:He.
    + assert ((e =? usize_max)%N = false) as -> by (unfold usize_max; lia).
      rewrite sl_firstn_in by lia. apply sl_same.
    + destruct (e =? usize_max)%N; [exact I|].
      rewrite sl_firstn_out by lia. exact I.
Qed.

Lemma sl_kind_same l k s e : same_out (sl_kind l k s e) (sl_kind l k s e).
Proof.
  destruct k; cbn [sl_kind]; try apply sl_same; try reflexivity;
    destruct (e =? usize_max)%N; try exact I; apply sl_same.
Qed.

Lemma range_bytes h k s e :
  wf_hex h = true -> same_out (hex_range h k s e) (sl_kind (bytes h) k s e).
Proof.
  destruct h as [l|a n]; intros H.
  - cbn [hex_range bytes]. apply sl_kind_same.
  - apply wf_bytes_inv in H as (Ha & _ & Hn). cbn [bytes].
    apply range_bytes_arr; assumption.
Qed.

(** ** construction *)

Lemma bytes_from_slice l : bytes (from_slice l) = l.
Proof.
  unfold from_slice. destruct (length l <=? HEX_SIZE); cbn [bytes]; [|reflexivity].
  apply firstn_length_app.
Qed.

Lemma bytes_from_vec l : bytes (from_vec l) = l.
Proof.
  unfold from_vec. destruct (length l <=? HEX_SIZE); [apply bytes_from_slice | reflexivity].
Qed.

Lemma wf_from_slice l : forallb wf_byte l = true -> wf_hex (from_slice l) = true.
Proof.
  intros Hl. unfold from_slice, HEX_SIZE.
  destruct (length l <=? 8) eqn:E; [|exact Hl].
  apply Nat.leb_le in E. apply wf_bytes_intro.
  - rewrite app_length, repeat_length. lia.
  - rewrite forallb_app, Hl. cbn [andb]. apply forallb_repeat. reflexivity.
  - exact E.
Qed.

Lemma wf_from_vec l : forallb wf_byte l = true -> wf_hex (from_vec l) = true.
Proof.
  intros Hl. unfold from_vec.
  destruct (length l <=? HEX_SIZE); [apply wf_from_slice; exact Hl | exact Hl].
Qed.

Lemma from_facts l :
  forallb wf_byte l = true ->
  bytes (from_slice l) = l /\ wf_hex (from_slice l) = true /\
  bytes (from_vec l) = l /\ wf_hex (from_vec l) = true.
Proof.
  intros Hl. repeat split.
  - apply bytes_from_slice.
  - apply wf_from_slice; exact Hl.
  - apply bytes_from_vec.
  - apply wf_from_vec; exact Hl.
Qed.

(** ** byte_at, tail *)

Lemma byte_at_facts h p :
  wf_hex h = true ->
  same_out (hex_byte_at h p) (idx (bytes h) p) /\
  same_out (hex_byte_at h p) (hex_index h p).
Proof.
  intros H. unfold hex_byte_at. split.
  - apply idx_same.
  - apply same_out_sym. apply index_bytes; exact H.
Qed.

Lemma tail_facts h skip :
  wf_hex h = true ->
  ((skip <= nlen (bytes h))%N ->
     exists t, hex_tail h skip = Ok t /\
               bytes t = skipn (N.to_nat skip) (bytes h) /\
               wf_hex t = true) /\
  ((nlen (bytes h) < skip)%N -> exists k, hex_tail h skip = Panic k).
Proof.
  intros H. unfold hex_tail. split; intros Hs.
  - rewrite sl_from by exact Hs. cbn [obind].
    exists (from_vec (skipn (N.to_nat skip) (bytes h))). split; [reflexivity|]. split.
    + apply bytes_from_vec.
    + apply wf_from_vec. apply forallb_skipn. apply wf_bytes_all; exact H.
  - rewrite sl_gt by exact Hs. cbn [obind]. exists PIndex. reflexivity.
Qed.

(** ** representation independence *)

Lemma print_bytes h1 h2 : bytes h1 = bytes h2 -> hex_print h1 = hex_print h2.
Proof. unfold hex_print. intros ->. reflexivity. Qed.

Lemma to_i64_bytes h1 h2 : bytes h1 = bytes h2 -> hex_to_i64 h1 = hex_to_i64 h2.
Proof. unfold hex_to_i64. intros ->. reflexivity. Qed.

Lemma to_f64_bytes h1 h2 :
  bytes h1 = bytes h2 -> hex_to_f64_bits h1 = hex_to_f64_bits h2.
Proof. unfold hex_to_f64_bits. intros ->. reflexivity. Qed.

Lemma repr_facts h1 h2 :
  wf_hex h1 = true -> wf_hex h2 = true -> bytes h1 = bytes h2 ->
  hex_len h1 = hex_len h2 /\
  hex_print h1 = hex_print h2 /\
  (forall i, same_out (hex_index h1 i) (hex_index h2 i)) /\
  (forall k s e, same_out (hex_range h1 k s e) (hex_range h2 k s e)) /\
  (forall p, same_out (hex_byte_at h1 p) (hex_byte_at h2 p)) /\
  hex_to_i64 h1 = hex_to_i64 h2 /\
  hex_to_f64_bits h1 = hex_to_f64_bits h2 /\
  (forall x, hex_eqb h1 x = hex_eqb h2 x).
Proof.
  intros W1 W2 E.
  split. { rewrite (len_bytes h1 W1), (len_bytes h2 W2), E. reflexivity. }
  split. { apply print_bytes; exact E. }
  split. { intros i. apply same_out_trans with (y := idx (bytes h1) i).
           - apply index_bytes; exact W1.
           - rewrite E. apply same_out_sym. apply index_bytes; exact W2. }
  split. { intros k s e. apply same_out_trans with (y := sl_kind (bytes h1) k s e).
           - apply range_bytes; exact W1.
           - rewrite E. apply same_out_sym. apply range_bytes; exact W2. }
  split. { intros p. unfold hex_byte_at. rewrite E. apply idx_same. }
  split. { apply to_i64_bytes; exact E. }
  split. { apply to_f64_bytes; exact E. }
  intros x. apply hex_eqb_bytes_l; exact E.
Qed.

(** ** concat (C16) *)

Definition KnownC16 (a b : hex) : Prop :=
  exists arr l, a = HBytes arr l /\ l < 8 /\ 8 < l + hex_len b.

Definition known_c16 (a b : hex) : bool :=
  match a with
  | HVector _ => false
  | HBytes _ l => (l <? 8) && (8 <? l + hex_len b)
  end.

Lemma knownC16_def a b :
  KnownC16 a b <-> exists arr l, a = HBytes arr l /\ l < 8 /\ 8 < l + hex_len b.
Proof. reflexivity. Qed.

Lemma known_c16_def a b :
  known_c16 a b =
  match a with
  | HVector _ => false
  | HBytes _ l => (l <? 8) && (8 <? l + hex_len b)
  end.
Proof. reflexivity. Qed.

Lemma known_c16_spec a b : known_c16 a b = true <-> KnownC16 a b.
Proof.
  unfold KnownC16. destruct a as [v|arr l]; cbn [known_c16]; split.
  - discriminate.
  - intros (arr & l & E & _); discriminate.
  - intros H. apply andb_true_iff in H as [H1 H2].
    apply Nat.ltb_lt in H1. apply Nat.ltb_lt in H2.
    exists arr, l. repeat split; assumption.
  - intros (arr' & l' & E & H1 & H2). inversion E; subst.
    apply andb_true_iff. split; apply Nat.ltb_lt; assumption.
Qed.

Lemma concat_outside a b :
  wf_hex a = true -> wf_hex b = true -> ~ KnownC16 a b ->
  bytes (hex_concat a b) = bytes a ++ bytes b /\ wf_hex (hex_concat a b) = true.
Proof.
  intros Wa Wb NK. pose proof (wf_bytes_all b Wb) as Fb.
  pose proof (len_bytes b Wb) as Lb.
  destruct a as [v|arr l]; cbn [hex_concat bytes].
  - split; [reflexivity|]. cbn [wf_hex]. rewrite forallb_app.
    cbn [wf_hex] in Wa. rewrite Wa, Fb. reflexivity.
  - apply wf_bytes_inv in Wa as (Ha & Fa & Hl). unfold HEX_SIZE.
    destruct (l + hex_len b <=? 8) eqn:E.
    + apply Nat.leb_le in E. cbn [bytes]. split.
      * assert (Hlen : length (firstn l arr) = l) by (apply firstn_length_le; lia).
        rewrite <- Hlen at 1. rewrite firstn_plus_app. f_equal.
        rewrite Lb. apply firstn_length_app.
      * apply wf_bytes_intro.
        -- rewrite !app_length, firstn_length_le, skipn_length by lia. lia.
        -- rewrite !forallb_app, Fb, (forallb_firstn _ _ _ Fa), (forallb_skipn _ _ _ Fa).
           reflexivity.
        -- exact E.
    + apply Nat.leb_gt in E.
      assert (l = 8) as ->.
      { destruct (Nat.lt_ge_cases l 8) as [Hlt|Hge]; [|lia].
        exfalso. apply NK. exists arr, l. repeat split; [exact Hlt | exact E]. }
      cbn [bytes]. rewrite firstn_all2 by lia. split; [reflexivity|].
      cbn [wf_hex]. rewrite forallb_app, Fa, Fb. reflexivity.
Qed.

Lemma concat_inside a b :
  wf_hex a = true -> wf_hex b = true -> KnownC16 a b ->
  exists arr l,
    a = HBytes arr l /\
    hex_concat a b = HVector (arr ++ bytes b) /\
    bytes (hex_concat a b) = bytes a ++ skipn l arr ++ bytes b.
Proof.
  intros _ _ (arr & l & -> & H1 & H2). exists arr, l.
  split; [reflexivity|].
  assert (E : hex_concat (HBytes arr l) b = HVector (arr ++ bytes b)).
  { cbn [hex_concat]. unfold HEX_SIZE.
    assert ((l + hex_len b <=? 8) = false) as -> by (apply Nat.leb_gt; exact H2).
    reflexivity. }
  split; [exact E|]. rewrite E. cbn [bytes].
  rewrite app_assoc, firstn_skipn. reflexivity.
Qed.

Lemma concat_inside_wrong a b :
  wf_hex a = true -> wf_hex b = true -> KnownC16 a b ->
  bytes (hex_concat a b) <> bytes a ++ bytes b.
Proof.
  intros Wa Wb K. destruct (concat_inside a b Wa Wb K) as (arr & l & -> & E & _).
  destruct K as (arr' & l' & E' & H1 & H2). inversion E'; subst arr' l'.
  apply wf_bytes_inv in Wa as (Ha & _ & Hl).
  rewrite E. cbn [bytes]. intros C. apply (f_equal (@length N)) in C.
  rewrite !app_length, firstn_length_le in C by lia. lia.
Qed.

Lemma concat_class_inhabited :
  exists a b, wf_hex a = true /\ wf_hex b = true /\ KnownC16 a b.
Proof.
  exists (HBytes [1;2;0;0;0;0;0;0]%N 2), (HVector [3;4;5;6;7;8;9]%N).
  split; [reflexivity|]. split; [reflexivity|].
  apply known_c16_spec. reflexivity.
Qed.

(** ** print / from_str *)

Local Open Scope N_scope.

Lemma hexval_upper d : d < 16 -> hexval (hexdigit_upper d) = Some d.
Proof.
  intros Hd. unfold hexval, hexdigit_upper. destruct (d <? 10) eqn:E.
  - assert (((48 <=? 48 + d) && (48 + d <=? 57))%bool = true) as -> by lia.
    f_equal. lia.
  - assert (((48 <=? 55 + d) && (55 + d <=? 57))%bool = false) as -> by lia.
    assert (((65 <=? 55 + d) && (55 + d <=? 70))%bool = true) as -> by lia.
    f_equal. lia.
Qed.

Lemma hexdigit_upper_not_dash d : negb (hexdigit_upper d =? ch_dash) = true.
Proof.
  unfold hexdigit_upper, ch_dash. destruct (d <? 10) eqn:E; lia.
Qed.

Lemma print_byte_no_dash b :
  forallb (fun c => negb (c =? ch_dash)) (print_byte_upper b) = true.
Proof.
  unfold print_byte_upper. cbn [forallb].
  rewrite !hexdigit_upper_not_dash. reflexivity.
Qed.

Lemma hex_decode_cons2 a b t :
  hex_decode (a :: b :: t) =
  match hexval a, hexval b, hex_decode t with
  | Some x, Some y, Some r => Some ((x * 16 + y) :: r)
  | _, _, _ => None
  end.
Proof. reflexivity. Qed.

Lemma hex_decode_print bs :
  forallb wf_byte bs = true ->
  hex_decode (concat (map print_byte_upper bs)) = Some bs.
Proof.
  induction bs as [|b t IH]; intros H; [reflexivity|].
  cbn [forallb] in H. apply andb_true_iff in H as [Hb Ht].
  unfold wf_byte in Hb.
  cbn [map concat]. unfold print_byte_upper at 1. cbn [app].
  rewrite hex_decode_cons2.
  rewrite (hexval_upper (b / 16)) by lia.
  rewrite (hexval_upper (b mod 16)) by lia.
  rewrite (IH Ht). f_equal. f_equal. lia.
Qed.

Lemma join_cons2 (sep p q : text) r :
  join sep (p :: q :: r) = p ++ sep ++ join sep (q :: r).
Proof. reflexivity. Qed.

Lemma filter_join (p : N -> bool) sep parts :
  filter p sep = [] ->
  (forall x, In x parts -> filter p x = x) ->
  filter p (join sep parts) = concat parts.
Proof.
  intros Hsep. induction parts as [|x rest IH]; intros Hall; [reflexivity|].
  destruct rest as [|y rest'].
  - cbn [join concat]. rewrite app_nil_r. apply Hall. left; reflexivity.
  - rewrite join_cons2, !filter_app, Hsep. cbn [app].
    change (concat (x :: y :: rest')) with (x ++ concat (y :: rest')).
    f_equal.
    + apply Hall. left; reflexivity.
    + apply IH. intros z Hz. apply Hall. right; exact Hz.
Qed.

Definition print_of_bytes (bs : list N) : text :=
  match bs with
  | [] => [ch_dash; ch_dash]
  | b :: t => join [ch_dash] (map print_byte_upper (b :: t))
  end.

Lemma hex_print_of_bytes h : hex_print h = print_of_bytes (bytes h).
Proof. reflexivity. Qed.

Lemma from_str_print_of_bytes bs :
  forallb wf_byte bs = true ->
  hex_from_str (print_of_bytes bs) = Some (from_vec bs).
Proof.
  intros H. unfold hex_from_str. destruct bs as [|b t]; [reflexivity|].
  unfold print_of_bytes. rewrite filter_join.
  - rewrite hex_decode_print by exact H. reflexivity.
  - reflexivity.
  - intros x Hx. apply in_map_iff in Hx as (c & <- & _).
    apply filter_all. apply print_byte_no_dash.
Qed.

Lemma print_parse h :
  wf_hex h = true ->
  exists h', hex_from_str (hex_print h) = Some h' /\
             bytes h' = bytes h /\ hex_eqb h' h = true.
Proof.
  intros W. exists (from_vec (bytes h)).
  rewrite hex_print_of_bytes, from_str_print_of_bytes by (apply wf_bytes_all; exact W).
  split; [reflexivity|]. split; [apply bytes_from_vec|].
  apply hex_eqb_spec. apply bytes_from_vec.
Qed.

(** ** integers and floats *)

Lemma divmod256 q : q = 256 * (q / 256) + q mod 256 /\ q mod 256 < 256.
Proof. split; [apply N.div_mod' | apply N.mod_lt; discriminate]. Qed.

Lemma be8_roundtrip n : n < two64 -> be_to_N (N_to_be8 n) = n.
Proof.
  intros H. unfold be_to_N, N_to_be8, two64 in *. cbn [fold_left].
  replace (n / 65536) with (n / 256 / 256)
    by (rewrite !N.div_div by discriminate; reflexivity).
  replace (n / 16777216) with (n / 256 / 256 / 256)
    by (rewrite !N.div_div by discriminate; reflexivity).
  replace (n / 4294967296) with (n / 256 / 256 / 256 / 256)
    by (rewrite !N.div_div by discriminate; reflexivity).
  replace (n / 1099511627776) with (n / 256 / 256 / 256 / 256 / 256)
    by (rewrite !N.div_div by discriminate; reflexivity).
  replace (n / 281474976710656) with (n / 256 / 256 / 256 / 256 / 256 / 256)
    by (rewrite !N.div_div by discriminate; reflexivity).
  replace (n / 72057594037927936) with (n / 256 / 256 / 256 / 256 / 256 / 256 / 256)
    by (rewrite !N.div_div by discriminate; reflexivity).
  destruct (divmod256 n) as [E0 B0]. set (q1 := n / 256) in *.
  destruct (divmod256 q1) as [E1 B1]. set (q2 := q1 / 256) in *.
  destruct (divmod256 q2) as [E2 B2]. set (q3 := q2 / 256) in *.
  destruct (divmod256 q3) as [E3 B3]. set (q4 := q3 / 256) in *.
  destruct (divmod256 q4) as [E4 B4]. set (q5 := q4 / 256) in *.
  destruct (divmod256 q5) as [E5 B5]. set (q6 := q5 / 256) in *.
  destruct (divmod256 q6) as [E6 B6]. set (q7 := q6 / 256) in *.
  destruct (divmod256 q7) as [E7 B7]. set (q8 := q7 / 256) in *.
  set (r0 := n mod 256) in *. set (r1 := q1 mod 256) in *.
  set (r2 := q2 mod 256) in *. set (r3 := q3 mod 256) in *.
  set (r4 := q4 mod 256) in *. set (r5 := q5 mod 256) in *.
  set (r6 := q6 mod 256) in *. set (r7 := q7 mod 256) in *.
  clearbody r0 r1 r2 r3 r4 r5 r6 r7 q8 q7 q6 q5 q4 q3 q2 q1.
  lia.
Qed.

Lemma be8_length n : length (N_to_be8 n) = 8%nat.
Proof. reflexivity. Qed.

Lemma be8_wf n : forallb wf_byte (N_to_be8 n) = true.
Proof.
  unfold N_to_be8, wf_byte. cbn [forallb].
  repeat (rewrite (proj2 (N.ltb_lt _ 256)) by (apply N.mod_lt; discriminate)).
  reflexivity.
Qed.

Lemma i64_roundtrip z :
  (- (2 ^ 63) <= z < 2 ^ 63)%Z -> hex_to_i64 (hex_from_i64 z) = Some z.
Proof.
  intros Hz. change (2 ^ 63)%Z with 9223372036854775808%Z in Hz.
  unfold hex_to_i64, hex_from_i64. rewrite bytes_from_slice, be8_length.
  cbn [Nat.eqb]. change (Z.of_N two64) with 18446744073709551616%Z.
  rewrite be8_roundtrip by (unfold two64; lia).
  f_equal. unfold two63.
  destruct (Z.to_N (z mod 18446744073709551616) <? 9223372036854775808) eqn:E; lia.
Qed.

Lemma i64_wf z : wf_hex (hex_from_i64 z) = true.
Proof. unfold hex_from_i64. apply wf_from_slice. apply be8_wf. Qed.

Lemma i64_len h : hex_to_i64 h = None <-> length (bytes h) <> 8%nat.
Proof.
  unfold hex_to_i64. destruct (Nat.eqb_spec (length (bytes h)) 8) as [E|E]; split;
    intros H; try discriminate; try contradiction; try reflexivity; exact E.
Qed.

Lemma f64_roundtrip w :
  w < 2 ^ 64 -> hex_to_f64_bits (hex_from_f64_bits w) = Some w.
Proof.
  intros Hw. change (2 ^ 64) with two64 in Hw.
  unfold hex_to_f64_bits, hex_from_f64_bits. rewrite bytes_from_slice, be8_length.
  cbn [Nat.eqb]. rewrite N.mod_small by exact Hw.
  rewrite be8_roundtrip by exact Hw. reflexivity.
Qed.

Lemma f64_wf w : wf_hex (hex_from_f64_bits w) = true.
Proof. unfold hex_from_f64_bits. apply wf_from_slice. apply be8_wf. Qed.

Lemma f64_len h : hex_to_f64_bits h = None <-> length (bytes h) <> 8%nat.
Proof.
  unfold hex_to_f64_bits. destruct (Nat.eqb_spec (length (bytes h)) 8) as [E|E]; split;
    intros H; try discriminate; try contradiction; try reflexivity; exact E.
Qed.
