(** * C07  No memory errors, and limit overruns stop with a panic   (PARTIAL)

    "No sequence of calls performs an out-of-bounds access, use-after-free,
    double free or uninitialised read.  Calls within the limits complete; calls
    that exceed one (id at or above the capacity, more than N labels on a
    vertex, more than 16 vertices in a group) stop with a panic before touching
    memory outside the graph.  This is claimed for builds with debug
    assertions."

    What the model can carry, and what is proved here:
    (a) calls within the limits complete: [C07_within_limits_no_panic];
    (b) each overrun stops with the panic of the container whose bound it
        exceeds, and for an id at or above the capacity the bound check is the
        first thing the call evaluates, before any slot is read or written:
        [C07_id_overrun], [C07_label_overrun], [C07_member_overrun];
    (c) bounds discipline: in every state the invariant holds of, every index
        sodg hands to one of its containers (group tag -> the two group
        tables, member -> vertex store, member count, label count, allocator
        position) is inside that container: [C07_bounds_discipline].
    What the model cannot exhibit: the raw-pointer / MaybeUninit code inside
    emap, micromap and microstack, i.e. whether those containers honour their
    contract.  That part of the property is covered only by running the
    correspondence stream under AddressSanitizer (thorough tier), which is
    supporting evidence, not proof (DESIGN.md section 12). *)

From Sodg Require Import Limits.

Theorem C07_within_limits_no_panic :
  forall n cap os,
  within_limits n cap sinit os ->
  exists g', run n (op_empty cap) os = Ok (g', snd (srun sinit os))
             /\ Inv n g' /\ R g' (fst (srun sinit os)) /\ cap_of g' = cap.
Proof. exact sim_run_empty. Qed.

Check C07_within_limits_no_panic :
  forall n cap os,
  within_limits n cap sinit os ->
  exists g', run n (op_empty cap) os = Ok (g', snd (srun sinit os))
             /\ Inv n g' /\ R g' (fst (srun sinit os)) /\ cap_of g' = cap.
Print Assumptions C07_within_limits_no_panic.

Theorem C07_id_overrun :
  forall n g o,
  match o with
  | OAdd v | OPut v _ | OData v | OKid v _ | OKids v => cap_of g <= v
  | OBind v1 v2 _ => cap_of g <= v1 \/ cap_of g <= v2
  | _ => False
  end -> step n g o = Panic PBoundary.
Proof. exact step_boundary_first. Qed.

Check C07_id_overrun :
  forall n g o,
  match o with
  | OAdd v | OPut v _ | OData v | OKid v _ | OKids v => cap_of g <= v
  | OBind v1 v2 _ => cap_of g <= v1 \/ cap_of g <= v2
  | _ => False
  end -> step n g o = Panic PBoundary.
Print Assumptions C07_id_overrun.

Theorem C07_label_overrun :
  forall n g v1 v2 a,
  v1 < cap_of g -> v2 < cap_of g -> mm_get (edg g v1) a = None -> n <= length (edg g v1) ->
  op_bind n g v1 v2 a = Panic PMapFull.
Proof. exact bind_label_overflow. Qed.

Check C07_label_overrun :
  forall n g v1 v2 a,
  v1 < cap_of g -> v2 < cap_of g -> mm_get (edg g v1) a = None -> n <= length (edg g v1) ->
  op_bind n g v1 v2 a = Panic PMapFull.
Print Assumptions C07_label_overrun.

Theorem C07_member_overrun :
  forall n g v1 v2 a,
  Inv n g -> tag g v1 <> 0 -> tag g v2 <> 0 -> room n g v1 a ->
  ((tag g v1 = 1 /\ 2 <= tag g v2 /\ length (members g (tag g v2)) = 16)
   \/ (2 <= tag g v1 /\ tag g v2 = 1 /\ length (members g (tag g v1)) = 16)) ->
  op_bind n g v1 v2 a = Panic PStackFull.
Proof. exact bind_group_overflow. Qed.

Check C07_member_overrun :
  forall n g v1 v2 a,
  Inv n g -> tag g v1 <> 0 -> tag g v2 <> 0 -> room n g v1 a ->
  ((tag g v1 = 1 /\ 2 <= tag g v2 /\ length (members g (tag g v2)) = 16)
   \/ (2 <= tag g v1 /\ tag g v2 = 1 /\ length (members g (tag g v1)) = 16)) ->
  op_bind n g v1 v2 a = Panic PStackFull.
Print Assumptions C07_member_overrun.

Theorem C07_bounds_discipline :
  forall n g,
  Inv n g ->
  (forall v, tag g v < nb g /\ tag g v < ns g)
  /\ (forall b m, 2 <= b -> b < 16 -> In m (members g b) -> m < cap_of g)
  /\ (forall b, 2 <= b -> b < 16 -> length (members g b) <= 16)
  /\ (forall v, length (edg g v) <= n)
  /\ g_next g <= cap_of g.
Proof. exact bounds_discipline. Qed.

Check C07_bounds_discipline :
  forall n g,
  Inv n g ->
  (forall v, tag g v < nb g /\ tag g v < ns g)
  /\ (forall b m, 2 <= b -> b < 16 -> In m (members g b) -> m < cap_of g)
  /\ (forall b, 2 <= b -> b < 16 -> length (members g b) <= 16)
  /\ (forall v, length (edg g v) <= n)
  /\ g_next g <= cap_of g.
Print Assumptions C07_bounds_discipline.

Theorem C07_every_step_keeps_the_invariant :
  forall n g o,
  Inv n g -> cpre n g o -> exists g' r, step n g o = Ok (g', r) /\ Inv n g'.
Proof. exact step_inv. Qed.

Check C07_every_step_keeps_the_invariant :
  forall n g o,
  Inv n g -> cpre n g o -> exists g' r, step n g o = Ok (g', r) /\ Inv n g'.
Print Assumptions C07_every_step_keeps_the_invariant.

Theorem C07_capacity_never_changes :
  forall n g o g' r,
  step n g o = Ok (g', r) -> same_shape g g'.
Proof. exact step_shape. Qed.

Check C07_capacity_never_changes :
  forall n g o g' r,
  step n g o = Ok (g', r) -> same_shape g g'.
Print Assumptions C07_capacity_never_changes.


(** non-vacuity: the three overruns on concrete graphs *)
Example C07_example_id : step 2 (op_empty 4) (OAdd 4) = Panic PBoundary.
Proof. reflexivity. Qed.

Example C07_example_labels :
  exists g, run 1 (op_empty 4) [OAdd 0; OAdd 1; OBind 0 1 (Alpha 0)] = Ok (g, [RUnit; RUnit; RUnit])
            /\ op_bind 1 g 0 1 (Alpha 1) = Panic PMapFull.
Proof. eexists. split; vm_compute; reflexivity. Qed.


