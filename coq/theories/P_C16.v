(** * P_C16: property C16 of the sodg verification.

    "a.concat(b) holds exactly the bytes of a followed by the bytes of b, for
    every a and b in either representation, and leaves a and b unchanged."

    The model is functional, so "leaves a and b unchanged" holds by
    construction.  The real code violates the first part in one class of
    inputs, [KnownC16] below (an inline [a] with fewer than eight used bytes
    whose concatenation no longer fits inline: the spill arm copies all
    eight array bytes, padding included).  The model reproduces this on
    purpose; it is recorded as a known finding.  Outside that class the
    property holds exactly; inside it the theorems say what happens instead.

    [KnownC16] and [known_c16] are defined in HexFacts.v and restated here by
    [C16_known_def] and [C16_known_reflect].  This file holds only the
    property theorems; every proof is in HexFacts.v. *)

From Sodg Require Import Base Text Hex HexFacts.

Theorem C16_known_def :
  forall a b,
    KnownC16 a b <->
    exists arr l, a = HBytes arr l /\ l < 8 /\ 8 < l + hex_len b.
Proof. exact knownC16_def. Qed.

Check C16_known_def :
  forall a b,
    KnownC16 a b <->
    exists arr l, a = HBytes arr l /\ l < 8 /\ 8 < l + hex_len b.
Print Assumptions C16_known_def.

Theorem C16_known_bool_def :
  forall a b,
    known_c16 a b =
    match a with
    | HVector _ => false
    | HBytes _ l => (l <? 8) && (8 <? l + hex_len b)
    end.
Proof. exact known_c16_def. Qed.

Check C16_known_bool_def :
  forall a b,
    known_c16 a b =
    match a with
    | HVector _ => false
    | HBytes _ l => (l <? 8) && (8 <? l + hex_len b)
    end.
Print Assumptions C16_known_bool_def.

Theorem C16_known_reflect :
  forall a b, known_c16 a b = true <-> KnownC16 a b.
Proof. exact known_c16_spec. Qed.

Check C16_known_reflect :
  forall a b, known_c16 a b = true <-> KnownC16 a b.
Print Assumptions C16_known_reflect.

Theorem C16_exact_outside :
  forall a b,
    wf_hex a = true -> wf_hex b = true -> ~ KnownC16 a b ->
    bytes (hex_concat a b) = bytes a ++ bytes b /\
    wf_hex (hex_concat a b) = true.
Proof. exact concat_outside. Qed.

Check C16_exact_outside :
  forall a b,
    wf_hex a = true -> wf_hex b = true -> ~ KnownC16 a b ->
    bytes (hex_concat a b) = bytes a ++ bytes b /\
    wf_hex (hex_concat a b) = true.
Print Assumptions C16_exact_outside.

Theorem C16_inside_characterised :
  forall a b,
    wf_hex a = true -> wf_hex b = true -> KnownC16 a b ->
    exists arr l,
      a = HBytes arr l /\
      hex_concat a b = HVector (arr ++ bytes b) /\
      bytes (hex_concat a b) = bytes a ++ skipn l arr ++ bytes b.
Proof. exact concat_inside. Qed.

Check C16_inside_characterised :
  forall a b,
    wf_hex a = true -> wf_hex b = true -> KnownC16 a b ->
    exists arr l,
      a = HBytes arr l /\
      hex_concat a b = HVector (arr ++ bytes b) /\
      bytes (hex_concat a b) = bytes a ++ skipn l arr ++ bytes b.
Print Assumptions C16_inside_characterised.

Theorem C16_inside_is_wrong :
  forall a b,
    wf_hex a = true -> wf_hex b = true -> KnownC16 a b ->
    bytes (hex_concat a b) <> bytes a ++ bytes b.
Proof. exact concat_inside_wrong. Qed.

Check C16_inside_is_wrong :
  forall a b,
    wf_hex a = true -> wf_hex b = true -> KnownC16 a b ->
    bytes (hex_concat a b) <> bytes a ++ bytes b.
Print Assumptions C16_inside_is_wrong.

Theorem C16_class_inhabited :
  exists a b, wf_hex a = true /\ wf_hex b = true /\ KnownC16 a b.
Proof. exact concat_class_inhabited. Qed.

Check C16_class_inhabited :
  exists a b, wf_hex a = true /\ wf_hex b = true /\ KnownC16 a b.
Print Assumptions C16_class_inhabited.

(** ** the hypotheses are satisfiable *)

(** the witness of [C16_class_inhabited] *)
Example ex_known_witness :
  wf_hex (HBytes [1;2;0;0;0;0;0;0]%N 2) = true /\
  wf_hex (HVector [3;4;5;6;7;8;9]%N) = true /\
  known_c16 (HBytes [1;2;0;0;0;0;0;0]%N 2) (HVector [3;4;5;6;7;8;9]%N) = true.
Proof. vm_compute. repeat split. Qed.

(** the wrong result: six padding zeros between "01-02" and "03-..-09" *)
Example ex_known_wrong_result :
  hex_concat (HBytes [1;2;0;0;0;0;0;0]%N 2) (HVector [3;4;5;6;7;8;9]%N) =
  HVector [1;2;0;0;0;0;0;0;3;4;5;6;7;8;9]%N.
Proof. vm_compute. reflexivity. Qed.

Example ex_known_expected :
  bytes (HBytes [1;2;0;0;0;0;0;0]%N 2) ++ bytes (HVector [3;4;5;6;7;8;9]%N) =
  [1;2;3;4;5;6;7;8;9]%N.
Proof. vm_compute. reflexivity. Qed.

(** non-zero padding leaks into the result in the same way *)
Example ex_known_wrong_padding :
  hex_concat (HBytes [1;2;255;254;7;7;7;7]%N 2) (HBytes [3;4;5;6;7;8;9;0]%N 7) =
  HVector [1;2;255;254;7;7;7;7;3;4;5;6;7;8;9]%N.
Proof. vm_compute. reflexivity. Qed.

(** outside the class: inline + inline that fits, full inline + anything,
    heap + anything *)
Example ex_outside_fits :
  known_c16 (HBytes [1;2;255;254;7;7;7;7]%N 2) (HBytes [3;4;5;9;9;9;9;9]%N 3) = false /\
  hex_concat (HBytes [1;2;255;254;7;7;7;7]%N 2) (HBytes [3;4;5;9;9;9;9;9]%N 3) =
  HBytes [1;2;3;4;5;7;7;7]%N 5.
Proof. vm_compute. split; reflexivity. Qed.

Example ex_outside_full :
  known_c16 (HBytes [1;2;3;4;5;6;7;8]%N 8) (HVector [9]%N) = false /\
  hex_concat (HBytes [1;2;3;4;5;6;7;8]%N 8) (HVector [9]%N) =
  HVector [1;2;3;4;5;6;7;8;9]%N.
Proof. vm_compute. split; reflexivity. Qed.

Example ex_outside_heap :
  known_c16 (HVector [1;2]%N) (HVector [3;4;5;6;7;8;9]%N) = false /\
  hex_concat (HVector [1;2]%N) (HVector [3;4;5;6;7;8;9]%N) =
  HVector [1;2;3;4;5;6;7;8;9]%N.
Proof. vm_compute. split; reflexivity. Qed.
