#!/usr/bin/env python3
import os, sys
sys.path.insert(0, os.path.dirname(os.path.abspath(__file__)))
from genp import emit
T = os.path.join(os.path.dirname(os.path.abspath(__file__)), "..", "theories")

LIMITS_EXAMPLE = r'''
Ltac limits_solve :=
  repeat match goal with
         | |- _ /\ _ => split
         | |- True => exact I
         | |- _ = _ => reflexivity
         | |- _ <> _ => discriminate || lia
         | |- _ < _ => vm_compute; lia
         | |- _ \/ _ => (left; reflexivity) || (right; vm_compute; lia)
         | |- match ?x with _ => _ end => let y := eval vm_compute in x in change x with y; cbv iota beta
         | |- exists _ : nat, _ =>
             first [ (exists 0; vm_compute; repeat split; (lia || reflexivity))
                   | (exists 1; vm_compute; repeat split; (lia || reflexivity))
                   | (exists 2; vm_compute; repeat split; (lia || reflexivity))
                   | (exists 3; vm_compute; repeat split; (lia || reflexivity))
                   | (exists 4; vm_compute; repeat split; (lia || reflexivity))
                   | (exists 5; vm_compute; repeat split; (lia || reflexivity)) ]
         end.
'''

# ---------------------------------------------------------------- C01
emit(os.path.join(T, "P_C01.v"), r'''* C01  GC safety: nothing is collected early, collaterally, or by a non-reading call

    "The set of present vertices shrinks only as the immediate effect of a
    data() call that reads a vertex's datum for the first time since it was
    put.  Every vertex that call removes is linked to the vertex read through
    the history of bind calls and none of them holds a datum that was put and
    not yet read; a vertex that was never an endpoint of a bind is never
    removed.  No other call removes any vertex."

    Quantifier: every call sequence [os ++ [o]] within the capacity limits
    ([within_limits], judged on the reference model), every N >= 1 and vertex
    capacity; the statement is about the last call [o] after an arbitrary
    history [os], i.e. about every single call of every sequence.

    [present g w] is "w is in keys()"; [is_stored g v] is "v holds a datum put
    and not yet read"; [linked E v w] is connectedness in the undirected graph
    whose edges are the bind(v1,v2) calls of the history; [endpoint E w] says w
    occurs in one of them.  clone() is the identity on the model (C10), slice()
    and save() do not touch their receiver (functional model), load() is C08,
    merge() is a sequence of add/bind/put/next_id calls (C11_as_calls), so that
    [C01_other_calls_remove_nothing] covers them.''',
"From Sodg Require Import HistoryThms.",
[
 ("C01_safety", "safety_model", r'''forall n cap os o,
  within_limits n cap sinit (os ++ [o]) ->
  exists g g' r,
    run n (op_empty cap) os = Ok (g, snd (srun sinit os))
    /\ step n g o = Ok (g', r)
    /\ forall w, present g w = true -> present g' w = false ->
         exists v, o = OData v /\ is_stored g v = true
                   /\ linked (bind_pairs os) v w /\ endpoint (bind_pairs os) w
                   /\ (w = v \/ is_stored g w = false)'''),
 ("C01_other_calls_remove_nothing", "other_calls_remove_nothing", r'''forall n cap os o,
  within_limits n cap sinit (os ++ [o]) -> (forall v, o <> OData v) ->
  exists g g' r,
    run n (op_empty cap) os = Ok (g, snd (srun sinit os))
    /\ step n g o = Ok (g', r)
    /\ forall w, present g w = true -> present g' w = true'''),
 ("C01_reference_safety", "spec_safety", r'''forall n cap os o,
  within_limits n cap sinit (os ++ [o]) ->
  let s := fst (srun sinit os) in
  let s' := fst (sstep s o) in
  forall w, s_present s w = true -> s_present s' w = false ->
  exists v, o = OData v /\ s_unread s v = true
            /\ linked (bind_pairs os) v w /\ endpoint (bind_pairs os) w
            /\ s_unread s' w = false'''),
 ("C01_empty_or_repeated_read_removes_nothing", "spec_data_noop", r'''forall s v,
  s_unread s v = false -> fst (sstep s (OData v)) = s'''),
 ("C01_unbound_vertex_never_removed", "spec_data_ungrouped", r'''forall s v w,
  s_grp s v = None -> s_present (fst (sstep s (OData v))) w = s_present s w'''),
 ("C01_def_present", "present_true", r'''forall g v, present g v = true <-> tag g v <> 0'''),
 ("C01_clone_is_identity", "clone_exact", r'''forall g, op_clone g = g'''),
 LIMITS_EXAMPLE + r'''
(** non-vacuity: a history within the limits whose last call collects, and
    the chain of binds that links the removed vertex 1 to the vertex read *)
Definition ex_os : list op :=
  [OAdd 1; OAdd 2; OAdd 3; OBind 1 2 (Alpha 0); OBind 3 2 (Greek 961); OPut 3 (HVector [9%N])].

Example C01_example : within_limits 2 4 sinit (ex_os ++ [OData 3])
  /\ s_keys (fst (srun sinit ex_os)) = [1; 2; 3]
  /\ s_keys (fst (srun sinit (ex_os ++ [OData 3]))) = []
  /\ linked (bind_pairs ex_os) 3 1.
Proof.
  split.
  - unfold ex_os. cbn [app within_limits pre]. repeat (split; [limits_solve|]); limits_solve.
  - split; [vm_compute; reflexivity|]. split; [vm_compute; reflexivity|].
    cbn. eapply l_trans; [apply l_edge; right; left; reflexivity|].
    apply l_sym. apply l_edge. left. reflexivity.
Qed.
''',
])

# ---------------------------------------------------------------- C03
emit(os.path.join(T, "P_C03.v"), r'''* C03  Edges and data read back exactly what was last written

    "For every present vertex v, kid(v,a) is the target of the most recent
    bind(v,.,a) since v was created (None if there was none) and kids(v) yields
    exactly one entry per label so bound.  data(v) is None until the first put
    and afterwards returns exactly the bytes of the most recent put(v,.), on
    the first read and on every later read.  Calls on other vertices,
    including the collection of other groups, never change these answers."

    Shape: refinement to last-write maps.  (1) [C03_observations_refine]: for
    every call sequence within the limits the model of the code returns, call
    by call, the answers of the reference model (this includes every kid /
    kids / data answer, and it is proved for every label variant and every
    data value, the data being compared as values with their representation).
    (2) The reference model keeps per vertex an insertion-ordered edge list
    and a last datum; the theorems below are its laws: what bind / put write,
    and that nothing else (reads, collections, next_id, add of other ids)
    changes any edge or datum.  (3) [C03_one_entry_per_label]: in every state
    satisfying the invariant the labels of a vertex are pairwise distinct.''',
"From Sodg Require Import HistoryThms.",
[
 ("C03_observations_refine", "observations_refine", r'''forall n cap os,
  within_limits n cap sinit os ->
  exists g', run n (op_empty cap) os = Ok (g', snd (srun sinit os))'''),
 ("C03_kid_answer", "spec_kid_answer", r'''forall s v a, snd (sstep s (OKid v a)) = RKid (mm_get (s_edges s v) a)'''),
 ("C03_kids_answer", "spec_kids_answer", r'''forall s v, snd (sstep s (OKids v)) = RKids (s_edges s v)'''),
 ("C03_data_answer", "spec_data_answer", r'''forall s v, snd (sstep s (OData v)) = RData (s_data s v)'''),
 ("C03_bind_writes", "spec_bind_edges", r'''forall s v1 v2 a,
  let s' := fst (sstep s (OBind v1 v2 a)) in
  (forall b, mm_get (s_edges s' v1) b = if label_eqb a b then Some v2 else mm_get (s_edges s v1) b)
  /\ map fst (s_edges s' v1) = (if in_dec label_eq_dec a (map fst (s_edges s v1))
                                then map fst (s_edges s v1) else map fst (s_edges s v1) ++ [a])
  /\ (forall w, w <> v1 -> s_edges s' w = s_edges s w)
  /\ (forall w, s_data s' w = s_data s w)'''),
 ("C03_put_writes", "spec_put_data", r'''forall s v d,
  let s' := fst (sstep s (OPut v d)) in
  s_data s' v = Some d /\ (forall w, w <> v -> s_data s' w = s_data s w)
  /\ (forall w, s_edges s' w = s_edges s w)'''),
 ("C03_reads_change_nothing", "spec_frame_readers", r'''forall s o,
  match o with OData _ | ONext | OKid _ _ | OKids _ | OKeys => True | _ => False end ->
  forall w, s_edges (fst (sstep s o)) w = s_edges s w /\ s_data (fst (sstep s o)) w = s_data s w'''),
 ("C03_add_frame", "spec_frame_add", r'''forall s v w,
  w <> v -> s_edges (fst (sstep s (OAdd v))) w = s_edges s w /\ s_data (fst (sstep s (OAdd v))) w = s_data s w'''),
 ("C03_add_present_changes_nothing", "spec_add_present", r'''forall s v,
  s_present s v = true -> sstep s (OAdd v) = (s, RUnit)'''),
 ("C03_add_absent_blank", "spec_add_absent", r'''forall s v,
  s_present s v = false ->
  let s' := fst (sstep s (OAdd v)) in
  s_present s' v = true /\ s_grp s' v = None /\ s_unread s' v = false
  /\ s_edges s' v = [] /\ s_data s' v = None
  /\ (forall w, w <> v -> s_present s' w = s_present s w /\ s_grp s' w = s_grp s w
                          /\ s_unread s' w = s_unread s w /\ s_edges s' w = s_edges s w
                          /\ s_data s' w = s_data s w)
  /\ s_alloc s' = s_alloc s'''),
 ("C03_one_entry_per_label", "one_entry_per_label", r'''forall n g v,
  Inv n g -> NoDup (map fst (edg g v)) /\ length (edg g v) <= n'''),
 LIMITS_EXAMPLE + r'''
(** non-vacuity: a label re-bound (it keeps its position), a datum
    overwritten, first and later reads, a collection elsewhere in between *)
Definition ex_os : list op :=
  [OAdd 0; OAdd 1; OAdd 2; OBind 0 1 (Alpha 7); OBind 0 2 (LStr [102; 111; 111; 32; 32; 32; 32; 32]%N);
   OBind 0 2 (Alpha 7); OKid 0 (Alpha 7); OKids 0;
   OAdd 3; OPut 3 (HVector [1%N]); OPut 3 (HBytes [2; 3; 0; 0; 0; 0; 0; 0]%N 2); OData 3; OData 3; OKids 0].

Example C03_example : within_limits 2 4 sinit ex_os
  /\ exists g', run 2 (op_empty 4) ex_os = Ok (g', snd (srun sinit ex_os))
     /\ snd (srun sinit ex_os) =
        [RUnit; RUnit; RUnit; RUnit; RUnit; RUnit; RKid (Some 2);
         RKids [(Alpha 7, 2); (LStr [102; 111; 111; 32; 32; 32; 32; 32]%N, 2)];
         RUnit; RUnit; RUnit; RData (Some (HBytes [2; 3; 0; 0; 0; 0; 0; 0]%N 2));
         RData (Some (HBytes [2; 3; 0; 0; 0; 0; 0; 0]%N 2));
         RKids [(Alpha 7, 2); (LStr [102; 111; 111; 32; 32; 32; 32; 32]%N, 2)]].
Proof.
  split.
  - unfold ex_os. cbn [within_limits pre]. repeat (split; [limits_solve|]); limits_solve.
  - eexists. split; vm_compute; reflexivity.
Qed.
''',
])

# ---------------------------------------------------------------- C05
emit(os.path.join(T, "P_C05.v"), r'''* C05  next_id() is fresh and never repeats

    "Every id returned by next_id() is below the capacity, is not present at
    that moment, and was not returned by any earlier next_id() on the same
    graph or on the graph it was cloned from, for every interleaving with add,
    bind, put, data-triggered collection and merge.  Vertices created
    internally by merge() and by script variables therefore never coincide with
    a present vertex."

    [C05_fresh]: one call from any reachable pair of related states.
    [C05_never_repeats]: along every call sequence within the limits the ids
    handed out are strictly increasing (so none repeats), below the capacity
    and below the allocator position reached.  A clone is the same state
    ([C05_clone_same_future]), so the ids it hands out afterwards continue the
    increasing sequence of the history it was cloned from: apply
    [C05_never_repeats] to the clone's whole history.  merge() and script
    variables obtain their ids by the same model function [op_next_id] inside a
    sequence of primitive calls (C11_as_calls, C14_deploy), followed by add():
    [C05_fresh] says the id is absent at that moment.''',
"From Sodg Require Import HistoryThms.\nFrom Coq Require Import Sorted.",
[
 ("C05_fresh", "next_id_fresh", r'''forall n g s,
  Inv n g -> R g s -> bounded s -> pre n (cap_of g) s ONext ->
  exists g' id, step n g ONext = Ok (g', RId id)
    /\ id < cap_of g /\ present g id = false /\ g_next g <= id /\ g_next g' = S id
    /\ (forall w, g_next g <= w -> w < id -> present g w = true)'''),
 ("C05_never_repeats", "next_ids_never_repeat", r'''forall n cap os,
  within_limits n cap sinit os ->
  exists g' rs, run n (op_empty cap) os = Ok (g', rs)
    /\ StronglySorted lt (ids_of rs)
    /\ Forall (fun id => id < cap /\ id < g_next g') (ids_of rs)'''),
 ("C05_reference_ids_increasing", "spec_ids_increasing", r'''forall n cap os s,
  bounded s -> within_limits n cap s os ->
  Forall (fun id => s_alloc s <= id /\ id < cap /\ id < s_alloc (fst (srun s os))) (ids_of (snd (srun s os)))
  /\ StronglySorted lt (ids_of (snd (srun s os)))
  /\ s_alloc s <= s_alloc (fst (srun s os))'''),
 ("C05_allocator_monotone", "spec_alloc_mono", r'''forall s o, s_alloc s <= s_alloc (fst (sstep s o))'''),
 ("C05_clone_same_future", "clone_same_future", r'''forall n g os, run n (op_clone g) os = run n g os'''),
 ("C05_def_bounded", "bounded_run", r'''forall os s, bounded s -> bounded (fst (srun s os))'''),
 ("C05_ids_of_results", "ids_of_cons", r'''forall r rs, ids_of (r :: rs) = ids_of [r] ++ ids_of rs'''),
 LIMITS_EXAMPLE + r'''
(** non-vacuity: add ahead of and behind the allocator, a collection that
    frees lower ids, ids handed out: 0, 2, 4 *)
Definition ex_os : list op :=
  [ONext; OAdd 0; OAdd 1; ONext; OBind 0 1 (Alpha 0); OPut 1 (HVector [5%N]); OData 1; OAdd 3; ONext; OKeys].

Example C05_example : within_limits 1 6 sinit ex_os
  /\ ids_of (snd (srun sinit ex_os)) = [0; 2; 4].
Proof.
  split; [|vm_compute; reflexivity].
  unfold ex_os. cbn [within_limits pre].
  repeat (split; [limits_solve|]); limits_solve.
Qed.
''',
])

# ---------------------------------------------------------------- C06
emit(os.path.join(T, "P_C06.v"), r'''* C06  Sustained operation: collection gives group capacity back

    "Collecting a group releases its capacity, so an unbounded number of groups
    can be created, filled, read and collected one after another.  Binding two
    ungrouped vertices forms a collectable group whenever fewer than 14 groups
    are alive, no matter how many groups have lived and died before."

    [cycles cs] is the call sequence  add u; add w; bind u w a; put w d; data w
    repeated for every (u, w, a, d) of the list [cs] -- any number of cycles,
    over any rotating choice of currently absent ids.  [C06_cycles]: after an
    arbitrary history [os] within the limits that leaves fewer than 14 groups
    alive (0 to 13 bystanders), the whole sequence [os ++ cycles cs] is within
    the limits, hence runs without panic on the model of the code (C02), every
    cycle's group is collected, and the alive set afterwards is the one before
    the cycles.  No bound on the number of cycles.
    [C06_slot_available]: in every state reachable within the limits, fewer
    than 14 alive groups means the slot search of bind() finds an empty slot
    among 2..15 (the two reserved slots are never handed out).''',
"From Sodg Require Import HistoryThms.",
[
 ("C06_cycles", "cycles_model", r'''forall n cap os cs,
  1 <= n -> within_limits n cap sinit os ->
  length (alive_groups (fst (srun sinit os))) < 14 ->
  Forall (fun c => match c with (u, w, _, _) =>
            u <> w /\ u < cap /\ w < cap
            /\ s_present (fst (srun sinit os)) u = false
            /\ s_present (fst (srun sinit os)) w = false end) cs ->
  within_limits n cap sinit (os ++ cycles cs)
  /\ exists g0 g', run n (op_empty cap) os = Ok (g0, snd (srun sinit os))
       /\ run n (op_empty cap) (os ++ cycles cs) = Ok (g', snd (srun sinit (os ++ cycles cs)))
       /\ Inv n g'
       /\ forall x, present g' x = present g0 x'''),
 ("C06_one_cycle", "cycle_spec", r'''forall n cap s u w a d,
  bounded s -> fresh_ok s -> u <> w -> u < cap -> w < cap -> 1 <= n ->
  s_present s u = false -> s_present s w = false -> length (alive_groups s) < 14 ->
  within_limits n cap s (cycle u w a d)
  /\ (let s' := fst (srun s (cycle u w a d)) in
      bounded s' /\ fresh_ok s'
      /\ (forall x, s_present s' x = s_present s x)
      /\ (forall x, s_present s x = true -> s_grp s' x = s_grp s x)
      /\ length (alive_groups s') = length (alive_groups s))
  /\ snd (srun s (cycle u w a d)) = [RUnit; RUnit; RUnit; RUnit; RData (Some d)]'''),
 ("C06_slot_available", "slot_available", r'''forall n g s,
  Inv n g -> R g s -> length (alive_groups s) < 14 ->
  exists b, first_empty g = Some b /\ 2 <= b /\ b < 16 /\ members g b = []'''),
 ("C06_def_alive_groups", "alive_in", r'''forall s k,
  In k (alive_groups s) <-> exists w, w < s_bound s /\ s_present s w = true /\ s_grp s w = Some k'''),
 ("C06_def_cycle", "cycle_def", r'''forall u w a d, cycle u w a d = [OAdd u; OAdd w; OBind u w a; OPut w d; OData w]'''),
 r'''
(** non-vacuity: 6 cycles over three rotating ids next to one bystander group *)
Definition ex_bystander : list op := [OAdd 0; OAdd 1; OBind 0 1 (Alpha 0); OPut 0 (HVector [1%N])].
Definition ex_cs : list (nat * nat * label * hex) :=
  concat (repeat [(2, 3, Alpha 0, HVector [7%N]); (3, 4, Alpha 1, hex_empty); (4, 2, Greek 961, HVector [])] 2).

Example C06_example :
  length (alive_groups (fst (srun sinit ex_bystander))) = 1
  /\ length ex_cs = 6
  /\ s_keys (fst (srun sinit (ex_bystander ++ cycles ex_cs))) = [0; 1]
  /\ exists g', run 1 (op_empty 5) (ex_bystander ++ cycles ex_cs)
                = Ok (g', snd (srun sinit (ex_bystander ++ cycles ex_cs))).
Proof.
  split; [vm_compute; reflexivity|]. split; [reflexivity|]. split; [vm_compute; reflexivity|].
  eexists. vm_compute. reflexivity.
Qed.
''',
])

# ---------------------------------------------------------------- C10
emit(os.path.join(T, "P_C10.v"), r'''* C10  clone() is an exact, independent copy

    "A clone answers every query as the original does and, given the same
    subsequent calls, keeps doing so, including which vertices get collected
    and which ids next_id() returns.  Mutating either graph never changes any
    answer of the other."

    clone.rs copies the four fields of the graph (the three emaps slot by slot,
    the member stacks by their used prefix, the allocator position); on the
    immutable values of the model that is the identity: [C10_clone_exact].
    Equal states have equal futures, for every continuation:
    [C10_same_future].  Independence (no aliasing between the two Rust values)
    cannot be expressed on immutable values; it is covered by the
    correspondence check only (each copy is mutated while the other is
    observed), see DESIGN.md section 12 -- this property is labelled partial
    there.''',
"From Sodg Require Import HistoryThms.",
[
 ("C10_clone_exact", "clone_exact", r'''forall g, op_clone g = g'''),
 ("C10_same_future", "clone_same_future", r'''forall n g os, run n (op_clone g) os = run n g os'''),
 ("C10_same_observers", "clone_observers", r'''forall g,
  op_keys (op_clone g) = op_keys g /\ g_next (op_clone g) = g_next g
  /\ (forall v, op_kids (op_clone g) v = op_kids g v)
  /\ (forall v a, op_kid (op_clone g) v a = op_kid g v a)
  /\ (forall v, op_data (op_clone g) v = op_data g v)
  /\ op_next_id (op_clone g) = op_next_id g'''),
])

