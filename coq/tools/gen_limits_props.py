#!/usr/bin/env python3
import os, sys
sys.path.insert(0, os.path.dirname(os.path.abspath(__file__)))
from genp import emit
T = os.path.join(os.path.dirname(os.path.abspath(__file__)), "..", "theories")

emit(os.path.join(T, "P_C07.v"), r'''* C07  No memory errors, and limit overruns stop with a panic   (PARTIAL)

    "No sequence of calls performs an out-of-bounds access, use-after-free,
    double free or uninitialised read.  Calls within the limits complete; calls
    that exceed one (id at or above the capacity, more than N labels on a
    vertex, more than 16 vertices in a group) stop with a panic before touching
    memory outside the graph.  This is claimed for builds with debug
    assertions."

    What the model can carry, and what is proved here:
    (a) calls within the limits complete: [C07_within_limits_no_panic];
    (b) each overrun stops with the panic of the container whose bound it
        exceeds, and for an id at or above the capacity the bound check is the
        first thing the call evaluates, before any slot is read or written:
        [C07_id_overrun], [C07_label_overrun], [C07_member_overrun];
    (c) bounds discipline: in every state the invariant holds of, every index
        sodg hands to one of its containers (group tag -> the two group
        tables, member -> vertex store, member count, label count, allocator
        position) is inside that container: [C07_bounds_discipline].
    What the model cannot exhibit: the raw-pointer / MaybeUninit code inside
    emap, micromap and microstack, i.e. whether those containers honour their
    contract.  That part of the property is covered only by running the
    correspondence stream under AddressSanitizer (thorough tier), which is
    supporting evidence, not proof (DESIGN.md section 12).''',
"From Sodg Require Import Limits.",
[
 ("C07_within_limits_no_panic", "sim_run_empty", r'''forall n cap os,
  within_limits n cap sinit os ->
  exists g', run n (op_empty cap) os = Ok (g', snd (srun sinit os))
             /\ Inv n g' /\ R g' (fst (srun sinit os)) /\ cap_of g' = cap'''),
 ("C07_id_overrun", "step_boundary_first", r'''forall n g o,
  match o with
  | OAdd v | OPut v _ | OData v | OKid v _ | OKids v => cap_of g <= v
  | OBind v1 v2 _ => cap_of g <= v1 \/ cap_of g <= v2
  | _ => False
  end -> step n g o = Panic PBoundary'''),
 ("C07_label_overrun", "bind_label_overflow", r'''forall n g v1 v2 a,
  v1 < cap_of g -> v2 < cap_of g -> mm_get (edg g v1) a = None -> n <= length (edg g v1) ->
  op_bind n g v1 v2 a = Panic PMapFull'''),
 ("C07_member_overrun", "bind_group_overflow", r'''forall n g v1 v2 a,
  Inv n g -> tag g v1 <> 0 -> tag g v2 <> 0 -> room n g v1 a ->
  ((tag g v1 = 1 /\ 2 <= tag g v2 /\ length (members g (tag g v2)) = 16)
   \/ (2 <= tag g v1 /\ tag g v2 = 1 /\ length (members g (tag g v1)) = 16)) ->
  op_bind n g v1 v2 a = Panic PStackFull'''),
 ("C07_bounds_discipline", "bounds_discipline", r'''forall n g,
  Inv n g ->
  (forall v, tag g v < nb g /\ tag g v < ns g)
  /\ (forall b m, 2 <= b -> b < 16 -> In m (members g b) -> m < cap_of g)
  /\ (forall b, 2 <= b -> b < 16 -> length (members g b) <= 16)
  /\ (forall v, length (edg g v) <= n)
  /\ g_next g <= cap_of g'''),
 ("C07_every_step_keeps_the_invariant", "step_inv", r'''forall n g o,
  Inv n g -> cpre n g o -> exists g' r, step n g o = Ok (g', r) /\ Inv n g' '''),
 ("C07_capacity_never_changes", "step_shape", r'''forall n g o g' r,
  step n g o = Ok (g', r) -> same_shape g g' '''),
 r'''
(** non-vacuity: the three overruns on concrete graphs *)
Example C07_example_id : step 2 (op_empty 4) (OAdd 4) = Panic PBoundary.
Proof. reflexivity. Qed.

Example C07_example_labels :
  exists g, run 1 (op_empty 4) [OAdd 0; OAdd 1; OBind 0 1 (Alpha 0)] = Ok (g, [RUnit; RUnit; RUnit])
            /\ op_bind 1 g 0 1 (Alpha 1) = Panic PMapFull.
Proof. eexists. split; vm_compute; reflexivity. Qed.
''',
])

emit(os.path.join(T, "P_C19.v"), r'''* C19  Behaviour is deterministic and independent of N and capacity   (PARTIAL)

    "Replaying a call sequence yields identical results, including the
    enumeration order of kids() and the ids chosen by next_id() and merge().
    Two graphs created with different edge capacities N and vertex capacities
    give identical answers for every sequence that fits within the limits of
    both."

    The reference model never consults N or the capacity (they occur only in
    the limits predicate), and the model of the code refines it under every
    configuration (C02), so two configurations give the same answers:
    [C19_config_independent]; a sequence that fits the smaller configuration
    fits every larger one: [C19_limits_monotone], [C19_config_larger].  The
    answers include kids() (edge order) and next_id().  The model is a
    function, so replaying is deterministic by construction
    ([C19_replay_deterministic]); the only nondeterministic ingredient of the
    real code, hash-set iteration order in slice(), is a parameter of the model
    and the result does not depend on it up to the order of a list that is
    only used as a set ([C19_slice_order_irrelevant]).  Run-to-run determinism
    of the real process (hash seeds, allocator) is a runtime fact that is
    observed by the correspondence check (each history replayed in several
    processes and configurations), not proved: this property is labelled
    partial in DESIGN.md section 12.''',
"From Sodg Require Import Limits SliceFacts.\nFrom Coq Require Import Permutation.",
[
 ("C19_config_independent", "config_independent", r'''forall n1 cap1 n2 cap2 os,
  within_limits n1 cap1 sinit os -> within_limits n2 cap2 sinit os ->
  exists g1 g2 rs,
    run n1 (op_empty cap1) os = Ok (g1, rs) /\ run n2 (op_empty cap2) os = Ok (g2, rs)
    /\ op_keys g1 = op_keys g2
    /\ (forall v, present g1 v = true ->
          edg g1 v = edg g2 v /\ prs g1 v = prs g2 v /\ (prs g1 v <> PEmpty -> dat g1 v = dat g2 v))'''),
 ("C19_limits_monotone", "within_limits_mono", r'''forall n1 n2 cap1 cap2, n1 <= n2 -> cap1 <= cap2 ->
  forall os s, within_limits n1 cap1 s os -> within_limits n2 cap2 s os'''),
 ("C19_config_larger", "config_larger", r'''forall n1 cap1 n2 cap2 os,
  n1 <= n2 -> cap1 <= cap2 -> within_limits n1 cap1 sinit os ->
  exists g1 g2 rs,
    run n1 (op_empty cap1) os = Ok (g1, rs) /\ run n2 (op_empty cap2) os = Ok (g2, rs)
    /\ op_keys g1 = op_keys g2'''),
 ("C19_replay_deterministic", "replay_deterministic", r'''forall n g os r1 r2,
  run n g os = r1 -> run n g os = r2 -> r1 = r2'''),
 ("C19_slice_order_irrelevant", "closure_order_irrelevant", r'''forall order1 order2 p g v d1 d2,
  (forall l, Permutation (order1 l) l) -> (forall l, Permutation (order2 l) l) ->
  pclosed p g v ->
  closure (cap_of g + 2) order1 p g [] [v] = Ok d1 ->
  closure (cap_of g + 2) order2 p g [] [v] = Ok d2 ->
  Permutation d1 d2'''),
 r'''
(** non-vacuity: one history, two configurations *)
Example C19_example :
  let os := [OAdd 0; OAdd 1; OBind 0 1 (Alpha 0); ONext; OPut 1 (HVector [1%N]); OKids 0; OData 1; OKeys] in
  run 1 (op_empty 3) os = Ok (fst (match run 1 (op_empty 3) os with Ok x => x | _ => (op_empty 0, []) end),
                              snd (match run 16 (op_empty 200) os with Ok x => x | _ => (op_empty 0, []) end)).
Proof. vm_compute. reflexivity. Qed.
''',
])
