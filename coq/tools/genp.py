#!/usr/bin/env python3
"""Generates a property file P_Cxx.v from a list of (name, lemma, statement):
   Theorem name : statement. Proof. exact lemma. Qed. Check name : statement. Print Assumptions name."""
import sys

def emit(path, header, imports, items, tail=""):
    out = ["(** " + header.strip() + " *)", "", imports, ""]
    for it in items:
        if isinstance(it, str):
            out.append(it)
            out.append("")
            continue
        name, lemma, stmt = it
        stmt = stmt.strip()
        out.append("Theorem %s :\n  %s.\nProof. exact %s. Qed.\n" % (name, stmt, lemma))
        out.append("Check %s :\n  %s.\nPrint Assumptions %s.\n" % (name, stmt, name))
    out.append(tail)
    open(path, "w").write("\n".join(out))
