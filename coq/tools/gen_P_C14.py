# generates theories/P_C14.v : each theorem is (name, statement, lemma, comment)
thms = []
def T(name, stmt, lemma, comment=None):
    thms.append((name, stmt.strip("\n"), lemma, comment))

HEADER = r'''(** * P_C14: property C14 of the sodg verification.

    "Deploying a well-formed script has exactly the effect of the
    corresponding add/bind/put calls executed in textual order, each
    $variable standing for one next_id() result throughout the script,
    whatever the whitespace, comments, ν-prefixes and hex formatting used; the
    returned count equals the number of commands.  A syntactically malformed
    command yields Err rather than a panic, after the commands before it have
    been applied."

    How the statement is set up (all definitions are in ScriptFacts.v and are
    restated below by the [C14_def_...] theorems):

    - [cmd]/[arg] is the abstract syntax of a script: [CAdd a], [CBind a1 a2 l],
      [CPut a bs] with arguments [ALit n] (a number), [ANu n] (a number written
      with the ν prefix), [AVar x] (the variable [$x]); [l] is the text of the
      label, [bs] the data bytes.
    - [exec n vs g prog] runs the API calls of [prog] directly: arguments are
      resolved left to right ([resolve]: a literal is itself, a variable is
      looked up in the table [vs] and, when absent, bound to [op_next_id]),
      then [op_add] / [op_bind n] / [op_put] is called.  No text is parsed
      except the isolated label text by [label_from_str].
    - [render f prog] is the text of the script under the formatting choices
      [f : fmt]: per command the white space / comments ([gap]) before the
      name, the number of blanks before "(", the gaps on both sides of every
      argument, per data byte the separators before it and between its two
      digits and the case of each digit, the separators after the last byte,
      the gap before ";"; for the script whether the last command has its ";"
      and the gap at the very end.
    - [wf_prog prog] restricts numbers to [usize], names and labels to texts
      that the tokenizer of script.rs leaves in one piece, data to a non-empty
      list of [u8]; [legal_fmt f] restricts gaps to Unicode white space and
      comments without LF, data separators to blank/tab/LF/CR/dash.
    - the model of [deploy_to] is [op_deploy] (Script.v): [Some count] is
      [Ok(count)], [None] is [Err].

    The main theorem [C14_deploy] is an equation of outcomes: when an API call
    panics (an id beyond the capacity, a full edge map, ...) both sides are the
    same [Panic].

    Not covered by [render] (accepted by script.rs all the same): a [+] sign or
    leading zeros in numbers, surplus arguments ("ADD(0, junk)"), empty
    arguments and empty commands ("ADD(,0);;"), comments that split a token.

    This file holds only the property theorems; every proof is in
    ScriptFacts.v. *)

From Sodg Require Import Base Text Hex Label Sodg Script ScriptFacts.

'''

# ---------------------------------------------------------------- definitions
T("C14_def_resolve", r'''
  forall vs g m x,
    resolve vs g (ALit m) = Ok (vs, g, clamp_id g m) /\
    resolve vs g (ANu m) = Ok (vs, g, clamp_id g m) /\
    (forall v, var_get vs x = Some v -> resolve vs g (AVar x) = Ok (vs, g, v)) /\
    (var_get vs x = None ->
     resolve vs g (AVar x) =
     (r <- op_next_id g ;; Ok ((x, snd r) :: vs, fst r, snd r)))''', "def_resolve",
  "** Definitions restated\n\n    [resolve]: the id an argument stands for")

T("C14_def_exec_cmd", r'''
  forall n vs g a a1 a2 l bs,
    exec_cmd n vs g (CAdd a) =
      (r <- resolve vs g a ;;
       match r with (vs1, g1, v) => g2 <- op_add g1 v ;; Ok (SOk (vs1, g2)) end) /\
    exec_cmd n vs g (CBind a1 a2 l) =
      (r1 <- resolve vs g a1 ;;
       match r1 with (vs1, g1, v1) =>
         r2 <- resolve vs1 g1 a2 ;;
         match r2 with (vs2, g2, v2) =>
           match label_from_str l with
           | Some lb => g3 <- op_bind n g2 v1 v2 lb ;; Ok (SOk (vs2, g3))
           | None => Ok (SErr g2)
           end
         end
       end) /\
    exec_cmd n vs g (CPut a bs) =
      (r <- resolve vs g a ;;
       match r with (vs1, g1, v) =>
         g2 <- op_put g1 v (from_vec bs) ;; Ok (SOk (vs1, g2))
       end)''', "def_exec_cmd", "one command: arguments left to right, then the API call")

T("C14_def_exec", r'''
  forall n vs g c prog,
    exec_run n vs g [] = Ok (SOk (vs, g)) /\
    exec_run n vs g (c :: prog) =
      (r <- exec_cmd n vs g c ;;
       match r with
       | SOk (vs1, g1) => exec_run n vs1 g1 prog
       | SErr g' => Ok (SErr g')
       end) /\
    exec n vs g prog =
      (r <- exec_run n vs g prog ;;
       Ok (match r with
           | SOk (_, g') => (g', Some (length prog))
           | SErr g' => (g', None)
           end))''', "def_exec", "the commands in textual order; the count is the number of commands")

T("C14_def_tokens", r'''
  forall m x,
    tok_arg (ALit m) = print_dec m /\
    tok_arg (ANu m) = ch_nu :: print_dec m /\
    tok_arg (AVar x) = ch_dollar :: x''', "def_tokens", "how an argument is written")

T("C14_def_gap", r'''
  forall c b gp,
    gap_text [] = [] /\
    gap_text (GWs c :: gp) = c :: gap_text gp /\
    gap_text (GCom b :: gp) = ch_hash :: b ++ ch_lf :: gap_text gp''', "def_gap",
  "a gap: white-space characters and [# comment LF] blocks")

T("C14_def_data", r'''
  forall fs e b bs,
    tok_data fs e [] = e /\
    tok_data fs e (b :: bs) =
      bf_sep (hd bf_default fs) ++ hexdigit (bf_up1 (hd bf_default fs)) (b / 16)
        :: bf_mid (hd bf_default fs) ++ hexdigit (bf_up2 (hd bf_default fs)) (b mod 16)
        :: tok_data (tl fs) e bs''', "def_data",
  "data: per byte [bf_sep], first digit, [bf_mid], second digit; [e] at the end;\n    [hexdigit true] is upper case, [hexdigit false] lower case")

T("C14_def_hexdigit", r'''
  forall d, hexdigit true d = hexdigit_upper d /\ hexdigit false d = hexdigit_lower d''',
  "def_hexdigit")

T("C14_def_cmd_text", r'''
  forall cf a a1 a2 l bs,
    cmd_text cf (CAdd a) =
      gap_text (cf_pre cf) ++ t_ADD ++ repeat ch_space (cf_sp cf) ++ ch_lpar
        :: arg_text (cf_a1 cf) (tok_arg a)
        ++ ch_rpar :: gap_text (cf_post cf) /\
    cmd_text cf (CBind a1 a2 l) =
      gap_text (cf_pre cf) ++ t_BIND ++ repeat ch_space (cf_sp cf) ++ ch_lpar
        :: (arg_text (cf_a1 cf) (tok_arg a1) ++ ch_comma
            :: arg_text (cf_a2 cf) (tok_arg a2) ++ ch_comma
            :: arg_text (cf_a3 cf) l)
        ++ ch_rpar :: gap_text (cf_post cf) /\
    cmd_text cf (CPut a bs) =
      gap_text (cf_pre cf) ++ t_PUT ++ repeat ch_space (cf_sp cf) ++ ch_lpar
        :: (arg_text (cf_a1 cf) (tok_arg a) ++ ch_comma
            :: arg_text (cf_a2 cf) (tok_data (cf_data cf) (cf_dend cf) bs))
        ++ ch_rpar :: gap_text (cf_post cf)''', "def_cmd_text",
  "the text of one command (without its [;])")

T("C14_def_arg_text", r'''
  forall gs t, arg_text gs t = gap_text (fst gs) ++ t ++ gap_text (snd gs)''', "def_arg_text")

T("C14_def_render", r'''
  forall f c c' cs,
    render f [] = gap_text (f_end f) /\
    render f [c] =
      cmd_text (hd cf_default (f_cmds f)) c
        ++ (if f_semi f then [ch_semi] else []) ++ gap_text (f_end f) /\
    render f (c :: c' :: cs) =
      cmd_text (hd cf_default (f_cmds f)) c
        ++ ch_semi :: render (mkF (tl (f_cmds f)) (f_semi f) (f_end f)) (c' :: cs)''',
  "def_render", "the text of a script")

T("C14_def_render_cmds", r'''
  forall fs c cs,
    render_cmds fs [] = [] /\
    render_cmds fs (c :: cs) =
      cmd_text (hd cf_default fs) c ++ ch_semi :: render_cmds (tl fs) cs''',
  "def_render_cmds", "commands each followed by [;] (a script prefix)")

T("C14_def_wf", r'''
  forall m x a a1 a2 l bs prog,
    wf_arg (ALit m) = (m <=? usize_max)%N /\
    wf_arg (ANu m) = (m <=? usize_max)%N /\
    wf_arg (AVar x) = plain_text x && nwl (rev x) /\
    wf_ltext l = plain_text l && negb (isnil l) && nwl l && nwl (rev l) /\
    wf_cmd (CAdd a) = wf_arg a /\
    wf_cmd (CBind a1 a2 l) = wf_arg a1 && wf_arg a2 && wf_ltext l /\
    wf_cmd (CPut a bs) = wf_arg a && negb (isnil bs) && forallb wf_byte bs /\
    wf_prog prog = forallb wf_cmd prog''', "def_wf",
  """well-formedness.  Why each restriction is there (grammar of script.rs):
    - numbers are [usize] ([usize::from_str] rejects more);
    - [plain_text]: no [#] (STRIP_COMMENTS is applied to the whole script, a
      [#...LF] would vanish), no [;] ([commands()] splits there), no [)] (LINE
      has [[^)]*] between the parentheses and [\\)$] at the end), no [,]
      (arguments are split there);
    - [nwl t] / [nwl (rev t)]: [t] does not start / end with white space (every
      argument is trimmed); a variable name follows its [$] so only its end
      matters, and it may be empty;
    - a label is not empty (empty arguments are dropped, the label would be
      missing); data has at least one byte (the DATA regex) and bytes are [u8]""")

T("C14_def_plain_text", r'''
  forall t,
    plain_text t = true <->
    ~ In ch_hash t /\ ~ In ch_comma t /\ ~ In ch_rpar t /\ ~ In ch_semi t''',
  "plain_text_spec")

T("C14_def_nwl", r'''
  forall t,
    (nwl t = true <-> (forall c r, t = c :: r -> is_ws c = false)) /\
    (nwl (rev t) = true <-> (forall c r, t = r ++ [c] -> is_ws c = false))''', "def_nwl")

T("C14_def_legal", r'''
  forall f cf bf,
    legal_fmt f = forallb legal_cfmt (f_cmds f) && legal_gap (f_end f) /\
    legal_cfmt cf =
      legal_gap (cf_pre cf) && legal_gaps (cf_a1 cf) && legal_gaps (cf_a2 cf)
      && legal_gaps (cf_a3 cf) && forallb legal_bfmt (cf_data cf)
      && strip_text (cf_dend cf) && legal_gap (cf_post cf) /\
    legal_bfmt bf = strip_text (bf_sep bf) && strip_text (bf_mid bf)''', "def_legal",
  "legal formats")

T("C14_def_legal_gaps", r'''
  forall gs, legal_gaps gs = legal_gap (fst gs) && legal_gap (snd gs)''', "def_legal_gaps")

T("C14_def_legal_gap", r'''
  forall gp,
    legal_gap gp = true <->
    forall i, In i gp ->
      match i with
      | GWs c => is_ws c = true
      | GCom b => ~ In ch_lf b
      end''', "legal_gap_spec",
  "a gap: any Unicode white space, comments without LF")

T("C14_def_strip_text", r'''
  forall t,
    strip_text t = true <->
    forall c, In c t -> c = ch_space \/ c = ch_tab \/ c = ch_lf \/ c = ch_cr \/ c = ch_dash''',
  "strip_text_spec", "separators inside data (the DATA_STRIP regex)")

T("C14_def_labels_ok", r'''
  forall prog,
    labels_ok prog =
    forallb (fun c => match c with
                      | CBind _ _ l =>
                          match label_from_str l with Some _ => true | None => false end
                      | _ => true
                      end) prog''', "def_labels_ok",
  "every label of the script is accepted by [Label::from_str]")

# ---------------------------------------------------------------- main
T("C14_deploy", r'''
  forall n f prog g,
    wf_prog prog = true -> legal_fmt f = true ->
    op_deploy n g (render f prog) = exec n [] g prog''', "deploy_render",
  """** The property

    deploying the text = running the API calls, whatever the format""")

T("C14_deploy_vars", r'''
  forall n f prog vs g,
    wf_prog prog = true -> legal_fmt f = true ->
    deploy_cmds n vs g (commands (render f prog)) 0 = exec n vs g prog''',
  "deploy_render_vars",
  "the same from any variable table ([Script] keeps its table between two\n    [deploy_to] calls; [op_deploy] is the first call)")

T("C14_count", r'''
  forall n vs g prog g' c,
    exec n vs g prog = Ok (g', Some c) -> c = length prog''', "exec_count",
  "the count is the number of commands")

T("C14_no_err", r'''
  forall n vs g prog g' r,
    labels_ok prog = true ->
    exec n vs g prog = Ok (g', r) -> r = Some (length prog)''', "exec_total",
  "with valid labels a well-formed script never yields [Err]")

T("C14_deploy_count", r'''
  forall n f prog g g' r,
    wf_prog prog = true -> legal_fmt f = true -> labels_ok prog = true ->
    op_deploy n g (render f prog) = Ok (g', r) -> r = Some (length prog)''',
  "deploy_render_count")

T("C14_variable_once", r'''
  forall vs g x vs' g' v,
    resolve vs g (AVar x) = Ok (vs', g', v) ->
    var_get vs' x = Some v /\
    (forall g2, resolve vs' g2 (AVar x) = Ok (vs', g2, v))''', "variable_once",
  """each variable stands for one [next_id()] result: once resolved it is in the
    table, later occurrences give the same id without touching the graph, and
    no table entry ever changes""")

T("C14_variables_kept", r'''
  forall n prog vs g vs' g' y w,
    exec_run n vs g prog = Ok (SOk (vs', g')) ->
    var_get vs y = Some w -> var_get vs' y = Some w''', "exec_run_keeps")

# ---------------------------------------------------------------- malformed
T("C14_def_syntax_ok", r'''
  forall c,
    syntax_ok c =
    match parse_line c with
    | None => false
    | Some (name, raw) =>
        let args := fields ch_comma raw in
        if text_eqb name t_ADD then
          match args with
          | a1 :: _ => arg_ok a1
          | [] => false
          end
        else if text_eqb name t_BIND then
          match args with
          | a1 :: a2 :: a3 :: _ => arg_ok a1 && arg_ok a2 && is_some (label_from_str a3)
          | _ => false
          end
        else if text_eqb name t_PUT then
          match args with
          | a1 :: a2 :: _ => arg_ok a1 && is_some (parse_data a2)
          | _ => false
          end
        else false
    end''', "def_syntax_ok",
  """** Malformed commands

    [syntax_ok c]: the command matches the LINE regex, its name is ADD, BIND or
    PUT, it has enough arguments and each of them parses""")

T("C14_def_arg_ok", r'''
  forall s,
    arg_ok s =
    match s with
    | [] => false
    | h :: t =>
        if (h =? ch_dollar)%N then true
        else if (h =? ch_nu)%N then is_some (parse_usize t)
        else is_some (parse_usize s)
    end''', "def_arg_ok")

T("C14_def_allocated", r'''
  forall g g',
    allocated g g' <->
    g' = g \/
    (exists v, op_next_id g = Ok (g', v)) \/
    (exists g1 v1 v2, op_next_id g = Ok (g1, v1) /\ op_next_id g1 = Ok (g', v2))''',
  "def_allocated", "[g'] is [g] after at most two [next_id()] calls")

T("C14_def_api_panic", r'''
  forall n k,
    api_panic n k <->
    (exists g1, op_next_id g1 = Panic k) \/
    (exists g1 v, op_add g1 v = Panic k) \/
    (exists g1 v1 v2 l, op_bind n g1 v1 v2 l = Panic k) \/
    (exists g1 v d, op_put g1 v d = Panic k)''', "def_api_panic",
  "a panic of one of the four API calls")

T("C14_step_err", r'''
  forall n vs g c g',
    deploy_one n vs g c = Ok (SErr g') -> syntax_ok c = false /\ allocated g g' ''',
  "deploy_one_err",
  "[deploy_one] gives [Err] only for a malformed command, and then the graph\n    is untouched but for the allocator")

T("C14_step_ok", r'''
  forall n vs g c x,
    deploy_one n vs g c = Ok (SOk x) -> syntax_ok c = true''', "deploy_one_ok")

T("C14_step_malformed", r'''
  forall n vs g c,
    syntax_ok c = false ->
    (exists g', deploy_one n vs g c = Ok (SErr g') /\ allocated g g') \/
    (exists k g1, deploy_one n vs g c = Panic k /\ op_next_id g1 = Panic k)''',
  "deploy_one_bad",
  """a malformed command gives [Err]; the one panic possible is that of the
    [next_id()] of a [$variable] standing before the malformed part (the graph
    is full), which the Rust code performs before it looks further""")

T("C14_step_wellformed", r'''
  forall n vs g c,
    syntax_ok c = true ->
    (exists x, deploy_one n vs g c = Ok (SOk x)) \/
    (exists k, deploy_one n vs g c = Panic k /\ api_panic n k)''', "deploy_one_good")

T("C14_panic_only_api", r'''
  forall n g s k, op_deploy n g s = Panic k -> api_panic n k''', "op_deploy_panic",
  "whatever the text: [deploy_to] panics only where an API call panics, and\n    the model has no artefact outcome")

T("C14_no_artefact", r'''
  forall n g s, op_deploy n g s <> OutOfFuel /\ op_deploy n g s <> Unmodelled''',
  "op_deploy_no_artefact")

T("C14_malformed_cmds", r'''
  forall n vs g cs1 c cs2 pos vs1 g1 g',
    run_cmds n vs g cs1 = Ok (SOk (vs1, g1)) ->
    deploy_one n vs1 g1 c = Ok (SErr g') ->
    deploy_cmds n vs g (cs1 ++ c :: cs2) pos = Ok (g', None)''',
  "deploy_cmds_malformed",
  "the loop stops at the first [Err] with the commands before it applied")

T("C14_def_run_cmds", r'''
  forall n vs g c cs,
    run_cmds n vs g [] = Ok (SOk (vs, g)) /\
    run_cmds n vs g (c :: cs) =
      (r <- deploy_one n vs g c ;;
       match r with
       | SOk (vs1, g1) => run_cmds n vs1 g1 cs
       | SErr g' => Ok (SErr g')
       end)''', "def_run_cmds")

T("C14_prefix", r'''
  forall n fs prog rest g,
    wf_prog prog = true -> forallb legal_cfmt fs = true ->
    op_deploy n g (render_cmds fs prog ++ rest) =
    (r <- exec_run n [] g prog ;;
     match r with
     | SOk (vs1, g1) => deploy_cmds n vs1 g1 (commands rest) (length prog)
     | SErr g' => Ok (g', None)
     end)''', "deploy_prefix",
  "a well-formed prefix followed by any text: the prefix is executed, then\n    the commands of the rest")

T("C14_malformed", r'''
  forall n fs prog bad rest g vs1 g1,
    wf_prog prog = true -> forallb legal_cfmt fs = true ->
    lacks ch_hash bad = true -> lacks ch_semi bad = true -> trim bad <> [] ->
    syntax_ok (trim bad) = false ->
    exec_run n [] g prog = Ok (SOk (vs1, g1)) ->
    (exists g',
        op_deploy n g (render_cmds fs prog ++ bad ++ ch_semi :: rest) = Ok (g', None)
        /\ allocated g1 g') \/
    (exists k g2,
        op_deploy n g (render_cmds fs prog ++ bad ++ ch_semi :: rest) = Panic k
        /\ op_next_id g2 = Panic k)''', "deploy_malformed",
  """a script whose first [length prog] commands are well formed and run to
    [g1], and whose next command [bad] is malformed: [Err], with the graph [g1]
    (allocator possibly advanced); whatever follows is not looked at""")

T("C14_def_lacks", r'''
  forall x t, lacks x t = true <-> ~ In x t''', "lacks_spec")

EXAMPLES = r'''
(** ** Examples

    [doc_prog]/[doc_fmt]/[doc_text]: the script of the documentation of
    [Script] in src/lib.rs; [test_prog]/[test_fmt]/[test_text]: the script of
    the unit test [simple_command] of src/script.rs (ν0, blanks before "," and
    ")"); [odd_prog]/[odd_fmt]/[odd_text]: a deliberately odd format; all
    defined at the end of ScriptFacts.v. *)

(** the hypotheses of [C14_deploy] are satisfiable, and [render] produces
    exactly the documented text *)

Example ex_doc_wf : wf_prog doc_prog = true.
Proof. vm_compute. reflexivity. Qed.

Example ex_doc_labels : labels_ok doc_prog = true.
Proof. vm_compute. reflexivity. Qed.

Example ex_doc_legal : legal_fmt doc_fmt = true.
Proof. vm_compute. reflexivity. Qed.

Example ex_doc_render : render doc_fmt doc_prog = doc_text.
Proof. vm_compute. reflexivity. Qed.

(** deploying it on [Sodg::<16>::empty(256)] returns 4, ... *)
Example ex_doc_count :
  exists g', op_deploy 16 (op_empty 256) doc_text = Ok (g', Some 4).
Proof. eexists. vm_compute. reflexivity. Qed.

(** ... which is what [exec] says, ... *)
Example ex_doc_exec :
  op_deploy 16 (op_empty 256) doc_text = exec 16 [] (op_empty 256) doc_prog.
Proof. vm_compute. reflexivity. Qed.

(** ... and the graph is the one of add(0), add(1), bind(0,1,foo), put(1,..)
    with 1 = next_id() *)
Example ex_doc_calls :
  op_deploy 16 (op_empty 256) doc_text =
  (g1 <- op_add (op_empty 256) 0 ;;
   r <- op_next_id g1 ;;
   g2 <- op_add (fst r) (snd r) ;;
   g3 <- op_bind 16 g2 0 (snd r) (LStr [102; 111; 111; 32; 32; 32; 32; 32]%N) ;;
   g4 <- op_put g3 (snd r) (from_vec x_privet) ;;
   Ok (g4, Some 4)).
Proof. vm_compute. reflexivity. Qed.

Example ex_test_hyps :
  wf_prog test_prog = true /\ labels_ok test_prog = true /\ legal_fmt test_fmt = true /\
  render test_fmt test_prog = test_text.
Proof. vm_compute. repeat split; reflexivity. Qed.

Example ex_test_count :
  exists g', op_deploy 16 (op_empty 256) test_text = Ok (g', Some 4).
Proof. eexists. vm_compute. reflexivity. Qed.

(** the two formats of the same commands (ν0 for 0 apart) give the same graph *)
Example ex_doc_test_same :
  op_deploy 16 (op_empty 256) test_text = op_deploy 16 (op_empty 256) doc_text.
Proof. vm_compute. reflexivity. Qed.

(** tabs, a comment inside a command, blanks before "(", a no-break space,
    separators inside the data, no final ";" *)
Example ex_odd_hyps :
  wf_prog odd_prog = true /\ legal_fmt odd_fmt = true /\
  render odd_fmt odd_prog = odd_text.
Proof. vm_compute. repeat split; reflexivity. Qed.

Example ex_odd_calls :
  op_deploy 16 (op_empty 256) odd_text =
  (g1 <- op_add (op_empty 256) 7 ;;
   g2 <- op_put g1 7 (from_vec [10; 255]%N) ;;
   Ok (g2, Some 2)).
Proof. vm_compute. reflexivity. Qed.

(** the equation covers panics: an id beyond the capacity *)
Example ex_panic_both :
  op_deploy 16 (op_empty 4) odd_text = Panic PBoundary /\
  exec 16 [] (op_empty 4) odd_prog = Panic PBoundary.
Proof. vm_compute. split; reflexivity. Qed.

(** a label that [Label::from_str] rejects: [Err] on both sides *)
Example ex_bad_label :
  let prog := [CBind (ALit 0) (ALit 0) [97; 98; 99; 100; 101; 102; 103; 104; 105]%N] in
  wf_prog prog = true /\ labels_ok prog = false /\
  op_deploy 16 (op_empty 4) (render (mkF [] true []) prog) = Ok (op_empty 4, None).
Proof. vm_compute. repeat split; reflexivity. Qed.

(** [C14_malformed]: "ADD(0); ADD(x); ADD(1);" *)
Example ex_malformed_hyps :
  wf_prog bad_prefix = true /\ lacks ch_hash bad_cmd = true /\
  lacks ch_semi bad_cmd = true /\ trim bad_cmd <> [] /\
  syntax_ok (trim bad_cmd) = false /\
  exists vs1 g1, exec_run 16 [] (op_empty 4) bad_prefix = Ok (SOk (vs1, g1)).
Proof.
  repeat split; try (vm_compute; reflexivity).
  - vm_compute. discriminate.
  - do 2 eexists. vm_compute. reflexivity.
Qed.

Example ex_malformed_result :
  op_deploy 16 (op_empty 4) (render_cmds [] bad_prefix ++ bad_cmd ++ ch_semi :: bad_rest) =
  (g1 <- op_add (op_empty 4) 0 ;; Ok (g1, None)).
Proof. vm_compute. reflexivity. Qed.

(** "BIND($a, x, l)": [Err], and [$a] has taken an id *)
Example ex_malformed_alloc :
  syntax_ok bad_bind = false /\
  deploy_one 16 [] (op_empty 4) bad_bind = Ok (SErr (set_next (op_empty 4) 1)) /\
  op_next_id (op_empty 4) = Ok (set_next (op_empty 4) 1, 0).
Proof. vm_compute. repeat split; reflexivity. Qed.

(** ... and on a graph without room the allocation panics, as in Rust *)
Example ex_malformed_panic :
  deploy_one 16 [] (op_empty 0) bad_bind = Panic PUnwrapNone /\
  op_next_id (op_empty 0) = Panic PUnwrapNone.
Proof. vm_compute. split; reflexivity. Qed.
'''

out = [HEADER]
for name, stmt, lemma, comment in thms:
    if comment:
        out.append("(** %s *)\n\n" % comment)
    out.append("Theorem %s :\n%s.\nProof. exact %s. Qed.\n\n" % (name, stmt, lemma))
    out.append("Check %s :\n%s.\nPrint Assumptions %s.\n\n" % (name, stmt, name))
out.append(EXAMPLES)
open("/tmp/wk_script/coq/theories/P_C14.v", "w").write("".join(out))
print(len(thms), "theorems")
